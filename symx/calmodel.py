"""Library model of datetime / calendar / matplotlib.dates for symbolic instants
(DESIGN.md 2.5, C11).

An instant is split into a *day number* and a *second of day*.  The day number
is concretised by forking (the solver enumerates the feasible days of the
harness's window, one path each); the second of day stays symbolic.  Calendar
fields of a concrete day are computed with the real `datetime`, so the only
modelled facts are: 86400 s per day, the split of the second of day into
h/m/s, and `calendar.timegm` = 86400 * days-since-epoch + second of day.
"""
import calendar as _calendar
import datetime as _datetime

import numpy as np
import z3

from . import core
from . import values as V
from .values import SymInt, SymFloat, SymBool, is_sym

EPOCH = _datetime.date(1970, 1, 1)
USED = set()


def concretise_int(x, what="integer"):
    """Fork on the value of a symbolic integer until it is pinned; returns int."""
    if not is_sym(x):
        return int(x)
    if isinstance(x, SymFloat):
        x = V.sym_int(x)
    if isinstance(x, SymBool):
        x = V.as_int01(x)
    ctx = core.current()
    e = z3.simplify(x.e)
    if z3.is_int_value(e):
        return e.as_long()
    guard = 0
    while True:
        guard += 1
        if guard > 5000:
            raise core.BoundExceeded("more than 5000 values while concretising %s" % what)
        m = ctx._ensure_model()
        v = m.eval(x.e, model_completion=True).as_long()
        if ctx.branch(x.e == v):
            return v


class SymDateTime(object):
    """datetime with a concrete date and a possibly symbolic time of day."""
    def __init__(self, date, hour=0, minute=0, second=0):
        self._date = date          # datetime.date
        self.hour = hour
        self.minute = minute
        self.second = second

    year = property(lambda self: self._date.year)
    month = property(lambda self: self._date.month)
    day = property(lambda self: self._date.day)

    def replace(self, year=None, month=None, day=None, hour=None, minute=None, second=None, microsecond=None):
        date = self._date
        if year is not None or month is not None or day is not None:
            date = date.replace(year=concretise_int(year) if year is not None else date.year,
                                month=concretise_int(month) if month is not None else date.month,
                                day=concretise_int(day) if day is not None else date.day)
        return SymDateTime(date, self.hour if hour is None else hour, self.minute if minute is None else minute,
                           self.second if second is None else second)

    def weekday(self):
        return self._date.weekday()

    def isoweekday(self):
        return self._date.isoweekday()

    def isocalendar(self):
        return self._date.isocalendar()

    def sod(self):
        return self.hour * 3600 + self.minute * 60 + self.second

    def timetuple(self):
        return self

    def toordinal(self):
        return self._date.toordinal()

    def date(self):
        return self._date

    def __sub__(self, other):
        if isinstance(other, (_datetime.timedelta, SymTimeDelta)):
            days = other.days
            if is_sym(days):
                days = concretise_int(days, "timedelta days")
            extra = getattr(other, "seconds", 0)
            if extra:
                raise core.Unsupported("timedelta with seconds")
            return SymDateTime(self._date - _datetime.timedelta(days=days), self.hour, self.minute, self.second)
        if isinstance(other, SymDateTime):
            o_date, o_sod = other._date, other.sod()
        elif isinstance(other, _datetime.datetime):
            o_date, o_sod = other.date(), other.hour * 3600 + other.minute * 60 + other.second
        else:
            return NotImplemented
        ddays = (self._date - o_date).days
        diff = self.sod() - o_sod
        if is_sym(diff):
            # floor((ddays*86400 + diff) / 86400) with |diff| < 86400
            neg = bool(diff < 0)
            return SymTimeDelta(ddays - 1 if neg else ddays)
        return SymTimeDelta(ddays + (diff // 86400))

    def __add__(self, other):
        if isinstance(other, (_datetime.timedelta, SymTimeDelta)):
            days = other.days
            if is_sym(days):
                days = concretise_int(days, "timedelta days")
            return SymDateTime(self._date + _datetime.timedelta(days=days), self.hour, self.minute, self.second)
        return NotImplemented

    def strftime(self, fmt):
        if fmt == "%Y%m%d":
            return self._date.strftime(fmt)
        for f in (self.hour, self.minute, self.second):
            if is_sym(f):
                raise core.Unsupported("strftime(%r) of a symbolic time of day" % fmt)
        return _datetime.datetime(self.year, self.month, self.day, self.hour, self.minute, self.second).strftime(fmt)


class SymTimeDelta(object):
    def __init__(self, days=0):
        self.days = days
        self.seconds = 0


class _DatetimeClass(object):
    """Stands in for the class datetime.datetime."""
    def __call__(self, year, month=None, day=None, hour=0, minute=0, second=0, *a, **k):
        if not any(is_sym(v) for v in (year, month, day, hour, minute, second)):
            return _datetime.datetime(int(year), int(month), int(day), int(hour), int(minute), int(second))
        USED.add("datetime.datetime(y,m,d) on symbolic fields (concretised by forking)")
        y = concretise_int(year, "year")
        mo = concretise_int(month, "month")
        d = concretise_int(day, "day")
        return SymDateTime(_datetime.date(y, mo, d), hour, minute, second)   # ValueError for invalid dates, as datetime

    def utcfromtimestamp(self, t):
        if isinstance(t, np.generic):
            t = t.item()
        if not is_sym(t):
            return _datetime.datetime.utcfromtimestamp(t)
        USED.add("datetime.utcfromtimestamp (day concretised by forking, second of day symbolic)")
        if isinstance(t, SymFloat):
            if bool(V.mkbool(t.nan)):
                raise ValueError("cannot convert float NaN to integer")
            ti = SymInt(z3.ToInt(t.val))          # fractions of a second are dropped by datetime fields we use
        else:
            ti = t if isinstance(t, SymInt) else V.as_int01(t)
        day = concretise_int(SymInt(ti.e / 86400), "day number")
        sod = SymInt(ti.e - 86400 * day)
        date = EPOCH + _datetime.timedelta(days=day)
        return SymDateTime(date, SymInt(sod.e / 3600), SymInt((sod.e % 3600) / 60), SymInt(sod.e % 60))

    def strptime(self, s, fmt):
        return _datetime.datetime.strptime(s, fmt)

    def fromisocalendar(self, year, week, day):
        return _datetime.datetime.fromisocalendar(concretise_int(year), concretise_int(week), concretise_int(day))

    def fromtimestamp(self, t, tz=None):
        if not is_sym(t):
            return _datetime.datetime.fromtimestamp(t, tz)
        if tz is None:
            raise core.Unsupported("datetime.fromtimestamp in local time")
        return self.utcfromtimestamp(t)

    def now(self, *a):
        raise core.Unsupported("datetime.now")


class DatetimeModule(object):
    datetime = _DatetimeClass()
    date = _datetime.date
    UTC = getattr(_datetime, "UTC", None)
    timezone = _datetime.timezone

    @staticmethod
    def timedelta(days=0, **kw):
        if kw:
            if any(is_sym(v) for v in kw.values()):
                raise core.Unsupported("timedelta with symbolic %s" % list(kw))
            if not is_sym(days):
                return _datetime.timedelta(days=days, **kw)
            raise core.Unsupported("timedelta(days=sym, %s)" % list(kw))
        if is_sym(days):
            return SymTimeDelta(days)
        return _datetime.timedelta(days=days)


class CalendarModule(object):
    @staticmethod
    def timegm(tt):
        if isinstance(tt, SymDateTime):
            USED.add("calendar.timegm = 86400*days_since_epoch + second of day")
            days = (tt._date - EPOCH).days
            return days * 86400 + tt.sod()
        return _calendar.timegm(tt)

    def __getattr__(self, name):
        return getattr(_calendar, name)


class _MplDates(object):
    """matplotlib.dates with its documented default epoch 1970-01-01T00:00Z:
    date2num = days since the epoch as a real number."""
    def __init__(self, real):
        self._real = real

    def date2num(self, d):
        if isinstance(d, SymDateTime):
            USED.add("matplotlib.dates.date2num = days since 1970-01-01 as a real")
            days = (d._date - EPOCH).days
            sod = d.sod()
            if is_sym(sod):
                return days + V.lift(sod) / 86400.0
            return days + sod / 86400.0
        return self._real.date2num(d)

    def num2date(self, x, tz=None):
        if is_sym(x):
            USED.add("matplotlib.dates.num2date (inverse of date2num)")
            secs = V.lift(x) * 86400.0
            return DatetimeModule.datetime.utcfromtimestamp(V.SymInt(z3.ToInt(secs.val)))
        return self._real.num2date(x, tz)

    def __getattr__(self, name):
        return getattr(self._real, name)


class MatplotlibProxy(object):
    def __init__(self):
        import matplotlib
        import matplotlib.dates
        import matplotlib.ticker
        self._real = matplotlib
        self.dates = _MplDates(matplotlib.dates)
        self.ticker = matplotlib.ticker

    def __getattr__(self, name):
        return getattr(self._real, name)


datetime_model = DatetimeModule()
calendar_model = CalendarModule()
_mpl = None


def matplotlib_model():
    global _mpl
    if _mpl is None:
        _mpl = MatplotlibProxy()
    return _mpl
