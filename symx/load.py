"""Load the real verif modules from the working tree and (re)bind their module
globals to the engine's stand-ins (DESIGN.md 2.1).  Nothing is copied or
cached: the encoding is whatever the current source produces when executed."""
import importlib
import importlib.util
import os
import sys
import builtins

import numpy

REPO = os.environ.get("VERIF_REPO", "/repo")

os.environ.setdefault("MPLBACKEND", "Agg")

MODULE_NAMES = ["verif.util", "verif.interval", "verif.aggregator", "verif.axis", "verif.field",
                "verif.location", "verif.variable", "verif.metric_type", "verif.metric", "verif.input",
                "verif.data", "verif.output", "verif.driver"]
SCRIPT_NAMES = ["accumulate", "ens2prob", "expandverif", "text2nc"]

modules = {}
scripts = {}
_bound = False
_extra_bindings = []      # (module, name, value) installed by harnesses while bound


def load():
    if modules:
        return modules
    if REPO not in sys.path:
        sys.path.insert(0, REPO)
    for name in MODULE_NAMES:
        modules[name] = importlib.import_module(name)
    for m in modules.values():
        f = getattr(m, "__file__", "")
        if not os.path.realpath(f).startswith(os.path.realpath(REPO) + os.sep):
            raise RuntimeError("%s was not loaded from %s but from %s" % (m.__name__, REPO, f))
    return modules


def load_script(name):
    if name in scripts:
        return scripts[name]
    load()
    path = os.path.join(REPO, "scripts", name + ".py")
    spec = importlib.util.spec_from_file_location("verif_script_" + name, path)
    mod = importlib.util.module_from_spec(spec)
    spec.loader.exec_module(mod)
    scripts[name] = mod
    if _bound:
        _bind_module(mod)
    return mod


def _all_modules():
    return list(modules.values()) + list(scripts.values())


_REAL = {}


def _bind_module(m):
    from . import arrays, values, calmodel
    import datetime as _dt
    import calendar as _cal
    import matplotlib as _mpl
    import matplotlib.dates as _mpld
    if hasattr(m, "np"):
        m.np = arrays.np_proxy
    m.float = values.sym_float
    m.int = values.sym_int
    m.set = values.sym_set
    d = m.__dict__
    if d.get("datetime") is _dt:
        m.datetime = calmodel.datetime_model
    if d.get("calendar") is _cal:
        m.calendar = calmodel.calendar_model
    if d.get("matplotlib") is _mpl:
        m.matplotlib = calmodel.matplotlib_model()
    if d.get("mpldates") is _mpld:
        m.mpldates = calmodel.matplotlib_model().dates
    import scipy as _scipy
    if d.get("scipy") is _scipy:
        m.scipy = arrays.ScipyProxy(_scipy)


def _unbind_module(m):
    from . import calmodel
    import datetime as _dt
    import calendar as _cal
    import matplotlib as _mpl
    import matplotlib.dates as _mpld
    if hasattr(m, "np"):
        m.np = numpy
    d = m.__dict__
    if d.get("datetime") is calmodel.datetime_model:
        m.datetime = _dt
    if d.get("calendar") is calmodel.calendar_model:
        m.calendar = _cal
    if isinstance(d.get("matplotlib"), calmodel.MatplotlibProxy):
        m.matplotlib = _mpl
    if isinstance(d.get("mpldates"), calmodel._MplDates):
        m.mpldates = _mpld
    from . import arrays as _arrays
    if isinstance(d.get("scipy"), _arrays.ScipyProxy):
        m.scipy = d["scipy"]._real
    for name in ("float", "int", "set"):
        if name in m.__dict__:
            del m.__dict__[name]


def bind():
    """Symbolic mode: verif's `np`, `float`, `int` become the engine's."""
    global _bound
    load()
    for m in _all_modules():
        _bind_module(m)
    _bound = True


def unbind():
    """Concrete mode: the unmodified code with the real libraries."""
    global _bound
    for m in _all_modules():
        _unbind_module(m)
    for (m, name, had, old) in reversed(_extra_bindings):
        if had:
            setattr(m, name, old)
        elif name in m.__dict__:
            del m.__dict__[name]
    del _extra_bindings[:]
    _bound = False


def rebind_global(module, name, value):
    """Install a stub/model for one module global until the next unbind()."""
    had = name in module.__dict__
    old = module.__dict__.get(name)
    _extra_bindings.append((module, name, had, old))
    setattr(module, name, value)


def is_bound():
    return _bound
