"""SymArray: real NumPy object arrays holding symbolic scalars (DESIGN.md 2.3).

Shape, indexing, views and aliasing are executed by NumPy itself; only the
element operations and the handful of reducing / ordering functions are
re-implemented over symbolic elements (library models, DESIGN 2.5).
"""
import math
import operator
import numpy as np
import z3

from . import core
from . import values as V
from .core import Unsupported
from .values import SymFloat, SymInt, SymBool, is_sym

MODELS_USED = set()      # names of library models exercised in this process


def _used(name):
    MODELS_USED.add(name)


# ----------------------------------------------------------------- conversions
def norm_dtype(dtype):
    """The shadowed builtins float/int may be used as dtypes by verif code."""
    if dtype is V.sym_float:
        return float
    if dtype is V.sym_int:
        return int
    return dtype


def has_sym(x):
    if is_sym(x):
        return True
    if isinstance(x, np.ndarray):
        if x.dtype != object:
            return False
        return any(is_sym(e) for e in x.flat)
    if isinstance(x, (list, tuple)):
        return any(has_sym(e) for e in x)
    return False


def to_obj(x):
    """Plain object ndarray view/copy of anything array-like."""
    if isinstance(x, SymArray):
        return x.view(np.ndarray)
    if isinstance(x, np.ma.MaskedArray):
        return np.ma.filled(x.astype(float), np.nan).astype(object)
    if isinstance(x, np.ndarray):
        if x.dtype == object:
            return x
        out = np.empty(x.shape, dtype=object)
        flat = out.reshape(-1)
        src = x.reshape(-1)
        for i in range(src.shape[0]):
            flat[i] = src[i].item()
        return out
    if isinstance(x, (list, tuple)):
        if len(x) and all(isinstance(e, np.ndarray) or isinstance(e, (list, tuple)) for e in x):
            parts = [to_obj(e) for e in x]
            out = np.empty((len(parts),) + parts[0].shape, dtype=object)
            for i, p in enumerate(parts):
                out[i] = p
            return out
        out = np.empty(len(x), dtype=object)
        for i, e in enumerate(x):
            out[i] = e.item() if isinstance(e, np.generic) else e
        return out
    out = np.empty((), dtype=object)
    out[()] = x.item() if isinstance(x, np.generic) else x
    return out


def sa(x):
    """Anything array-like -> SymArray."""
    if isinstance(x, SymArray):
        return x
    return to_obj(x).view(SymArray)


def unwrap(r):
    """0-d result -> element."""
    if isinstance(r, np.ndarray) and r.ndim == 0:
        return r[()]
    return r


# ------------------------------------------------------------------ elementwise
def _np_scalar(ufunc, *args):
    with np.errstate(all="ignore"):
        r = ufunc(*args)
    if isinstance(r, np.generic):
        return r.item()
    return r


def _b(x):
    return V.unbool(x)


def _logical_and(a, b):
    return V.mkbool(V.b_and(_b(a), _b(b)))


def _logical_or(a, b):
    return V.mkbool(V.b_or(_b(a), _b(b)))


def _logical_not(a):
    return V.mkbool(V.b_not(_b(a)))


def _logical_xor(a, b):
    return V.mkbool(V.b_xor(_b(a), _b(b)))


def _isboolish(x):
    return isinstance(x, (bool, SymBool, np.bool_))


def _bit_and(a, b):
    if _isboolish(a) and _isboolish(b):
        return _logical_and(a, b)
    raise Unsupported("bitwise and on symbolic numbers")


def _bit_or(a, b):
    if _isboolish(a) and _isboolish(b):
        return _logical_or(a, b)
    raise Unsupported("bitwise or on symbolic numbers")


def _invert(a):
    if _isboolish(a):
        return _logical_not(a)
    raise Unsupported("invert on symbolic number")


def _sign(a):
    x = V.lift(a)
    zero = V.lift(0.0)
    return V.v_ite(x.nan, float("nan"),
                   V.v_ite(V.e_lt(zero, x), 1.0, V.v_ite(V.e_eq(x, zero), 0.0, -1.0)))


def _fmax(a, b):
    x, y = V.lift(a), V.lift(b)
    return V.v_ite(x.nan, y, V.v_ite(y.nan, x, V.v_max(x, y)))


def _fmin(a, b):
    x, y = V.lift(a), V.lift(b)
    return V.v_ite(x.nan, y, V.v_ite(y.nan, x, V.v_min(x, y)))


SYM_UFUNC = {
    np.add: operator.add, np.subtract: operator.sub, np.multiply: operator.mul,
    np.true_divide: operator.truediv, np.floor_divide: operator.floordiv,
    np.remainder: operator.mod, np.power: operator.pow,
    np.negative: operator.neg, np.positive: operator.pos, np.absolute: abs, np.fabs: abs,
    np.sqrt: V.v_sqrt, np.log: V.v_log, np.log2: lambda x: V.v_log(x, 2),
    np.log10: lambda x: V.v_log(x, 10), np.exp: V.v_exp,
    np.floor: lambda x: V.v_floor(V.lift(x)), np.ceil: lambda x: V.v_ceil(V.lift(x)),
    np.trunc: lambda x: V.v_trunc(V.lift(x)),
    np.square: lambda x: x * x, np.reciprocal: lambda x: 1.0 / x,
    np.isnan: V.v_isnan, np.isinf: V.v_isinf, np.isfinite: V.v_isfinite,
    np.less: operator.lt, np.less_equal: operator.le, np.greater: operator.gt,
    np.greater_equal: operator.ge, np.equal: operator.eq, np.not_equal: operator.ne,
    np.logical_and: _logical_and, np.logical_or: _logical_or, np.logical_not: _logical_not,
    np.logical_xor: _logical_xor,
    np.bitwise_and: _bit_and, np.bitwise_or: _bit_or, np.bitwise_xor: _logical_xor,
    np.invert: _invert,
    np.maximum: V.v_max, np.minimum: V.v_min, np.fmax: _fmax, np.fmin: _fmin,
    np.sign: _sign,
}


def elem_apply(ufunc, *args):
    if any(a is np.ma.masked for a in args):
        return np.ma.masked
    if not any(is_sym(a) for a in args):
        return _np_scalar(ufunc, *args)
    fn = SYM_UFUNC.get(ufunc)
    if fn is None:
        raise Unsupported("ufunc %s on symbolic values" % ufunc.__name__)
    # NumPy scalars would hand the operation back to __array_ufunc__ (endless recursion): plain Python numbers
    args = [a.item() if isinstance(a, np.generic) else a for a in args]
    r = fn(*args)
    if r is NotImplemented:
        raise Unsupported("ufunc %s on %r" % (ufunc.__name__, args))
    return r


_REDUCERS = {}


_BOOL_UFUNCS = {np.greater, np.greater_equal, np.less, np.less_equal, np.equal, np.not_equal, np.logical_and,
                np.logical_or, np.logical_not, np.logical_xor, np.isnan, np.isinf, np.isfinite}


def dispatch_ufunc(ufunc, method, inputs, kwargs):
    out = kwargs.pop("out", None)
    if kwargs.get("where", True) is not True:
        raise Unsupported("ufunc where=")
    kwargs.pop("where", None)
    masks = [x._mask for x in inputs if isinstance(x, SymArray) and x._mask is not None]
    if method == "__call__":
        kwargs.pop("dtype", None)
        kwargs.pop("casting", None)
        if kwargs:
            raise Unsupported("ufunc kwargs %s" % list(kwargs))
        args = [to_obj(x) if isinstance(x, (np.ndarray, list, tuple)) else x for x in inputs]
        if not any(isinstance(a, np.ndarray) and a.ndim > 0 for a in args):
            res = elem_apply(ufunc, *[unwrap(a) for a in args])
        else:
            bargs = np.broadcast_arrays(*[a if isinstance(a, np.ndarray) else to_obj(a) for a in args])
            shape = bargs[0].shape
            res = np.empty(shape, dtype=object)
            rflat = res.reshape(-1)
            flats = [b.reshape(-1) for b in bargs]
            for i in range(rflat.shape[0]):
                rflat[i] = elem_apply(ufunc, *[f[i] for f in flats])
            if ufunc in _BOOL_UFUNCS and not masks and all(isinstance(e, (bool, np.bool_)) for e in rflat):
                # every element was decided on this path: a real boolean array, as NumPy returns
                return np.array([bool(e) for e in rflat], dtype=bool).reshape(shape).view(SymArray)
            res = res.view(SymArray)
            if masks:
                m = masks[0]
                for mm in masks[1:]:
                    m = np.logical_or(m, mm)
                res._mask = sa(np.broadcast_to(to_obj(m), shape).copy())
        if out is not None:
            target = out[0] if isinstance(out, tuple) else out
            if isinstance(target, np.ndarray) and target.dtype != object and has_sym(res):
                raise Unsupported("in-place ufunc into a non-object array")
            target[...] = res
            return target
        return res
    if method == "reduce":
        axis = kwargs.pop("axis", 0)
        keepdims = kwargs.pop("keepdims", False)
        initial = kwargs.pop("initial", None)
        kwargs.pop("dtype", None)
        if kwargs:
            raise Unsupported("ufunc.reduce kwargs %s" % list(kwargs))
        arr = to_obj(inputs[0])

        def fold(xs):
            it = list(xs)
            if initial is not None and initial is not np._NoValue:
                it = [initial] + it
            if not it:
                ident = ufunc.identity
                if ident is None:
                    raise ValueError("zero-size array to reduction operation %s which has no identity" % ufunc.__name__)
                return ident
            acc = it[0]
            for e in it[1:]:
                acc = elem_apply(ufunc, acc, e)
            return acc
        r = along_axis(arr, axis, fold, keepdims)
        if out is not None:
            target = out[0] if isinstance(out, tuple) else out
            target[...] = r
            return target
        return r
    raise Unsupported("ufunc method %s" % method)


def along_axis(arr, axis, fn, keepdims=False):
    """Apply fn(list_of_scalars)->scalar along axis (None = all) of an object array."""
    arr = to_obj(arr)
    if axis is None or arr.ndim == 0:
        r = fn(list(arr.reshape(-1)))
        if keepdims:
            o = np.empty((1,) * arr.ndim, dtype=object)
            o.reshape(-1)[0] = r
            return o.view(SymArray)
        return r
    if isinstance(axis, (tuple, list)):
        axes = sorted(a % arr.ndim for a in axis)
        moved = np.moveaxis(arr, axes, range(arr.ndim - len(axes), arr.ndim))
        keep_shape = moved.shape[:arr.ndim - len(axes)]
        flat = moved.reshape(int(np.prod(keep_shape, dtype=int)) if keep_shape else 1, -1)
    else:
        axes = [axis % arr.ndim]
        moved = np.moveaxis(arr, axis, -1)
        keep_shape = moved.shape[:-1]
        flat = moved.reshape(-1, moved.shape[-1])
    out = np.empty(flat.shape[0], dtype=object)
    for i in range(flat.shape[0]):
        out[i] = fn(list(flat[i]))
    out = out.reshape(keep_shape)
    if keepdims:
        shp = list(arr.shape)
        for a in axes:
            shp[a] = 1
        out = out.reshape(shp)
    if out.ndim == 0:
        return out[()]
    return out.view(SymArray)


# ----------------------------------------------------------------- 1-D models
def l_sum(xs):
    acc = 0
    for e in xs:
        acc = elem_apply(np.add, acc, e)
    if isinstance(acc, bool):
        acc = int(acc)
    return acc


def l_isnan(e):
    return elem_apply(np.isnan, e) if not isinstance(e, (bool, SymBool, SymInt, int)) else False


def _ite(c, a, b):
    """scalar ite where c is bool / SymBool."""
    if c is True or c is np.True_:
        return a
    if c is False or c is np.False_:
        return b
    return V.v_ite(_b(c), a, b)


def l_mean(xs):
    if len(xs) == 0:
        return float("nan")
    return elem_apply(np.true_divide, l_sum(xs), len(xs))


def l_nansum(xs):
    return l_sum([_ite(l_isnan(e), 0.0, e) for e in xs])


def l_count_valid(xs):
    return l_sum([_ite(l_isnan(e), 0, 1) for e in xs])


def l_nanmean(xs):
    if len(xs) == 0:
        return float("nan")
    return elem_apply(np.true_divide, l_nansum(xs), l_count_valid(xs))


def l_min(xs):
    if len(xs) == 0:
        raise ValueError("zero-size array to reduction operation minimum which has no identity")
    acc = xs[0]
    for e in xs[1:]:
        acc = elem_apply(np.minimum, acc, e)
    return acc


def l_max(xs):
    if len(xs) == 0:
        raise ValueError("zero-size array to reduction operation maximum which has no identity")
    acc = xs[0]
    for e in xs[1:]:
        acc = elem_apply(np.maximum, acc, e)
    return acc


def l_nanmin(xs):
    if len(xs) == 0:
        raise ValueError("zero-size array to reduction operation fmin which has no identity")
    acc = xs[0]
    for e in xs[1:]:
        acc = elem_apply(np.fmin, acc, e)
    return acc


def l_nanmax(xs):
    if len(xs) == 0:
        raise ValueError("zero-size array to reduction operation fmax which has no identity")
    acc = xs[0]
    for e in xs[1:]:
        acc = elem_apply(np.fmax, acc, e)
    return acc


def l_var(xs, ddof=0):
    n = len(xs)
    if n == 0:
        return float("nan")
    m = l_mean(xs)
    devs = [elem_apply(np.subtract, e, m) for e in xs]
    s = l_sum([elem_apply(np.multiply, d, d) for d in devs])
    return elem_apply(np.true_divide, s, n - ddof)


def l_std(xs, ddof=0):
    return elem_apply(np.sqrt, l_var(xs, ddof))


def _lt(a, b):
    """Ordering used by np.sort: NaN last."""
    an, bn = l_isnan(a), l_isnan(b)
    if bool(an):
        return False
    if bool(bn):
        return True
    return bool(elem_apply(np.less, a, b))


def l_argsort(xs, ties_unspecified=False):
    """Stable insertion sort by forking comparisons; returns index list.
    With ties_unspecified (np.argsort without kind='stable') every order of
    tied values is explored: NumPy's default order of equal elements is not
    specified (and is not the stable one on this build)."""
    if ties_unspecified and len(xs) and not any(is_sym(e) for e in xs):
        # concrete operands: the library itself decides (also the order of equal elements)
        try:
            return [int(i) for i in np.argsort(np.array([float(e) for e in xs], dtype=float))]
        except (TypeError, ValueError):
            pass
    _used("sort(forking insertion sort)")
    idx = []
    for i in range(len(xs)):
        pos = len(idx)
        # stable: move left while xs[i] < xs[idx[pos-1]]
        while pos > 0 and _lt(xs[i], xs[idx[pos - 1]]):
            pos -= 1
        while ties_unspecified and pos > 0:
            prev = xs[idx[pos - 1]]
            if bool(l_isnan(prev)) or bool(l_isnan(xs[i])) or not bool(elem_apply(np.equal, prev, xs[i])):
                break
            # np.argsort without kind='stable' does not specify the order of equal elements (and it is not
            # the stable one on this build): every order is explored (a fork per tied neighbour); what the
            # installed NumPy picks is one of them, so the witness replay of such a path is skipped and a
            # counterexample counts only if the real run confirms it
            ctx = core.current()
            if ctx is None:
                break
            ctx.witness_incomplete = True
            if ctx.choose(2, "argsort-tie") == 0:
                break
            pos -= 1
        idx.insert(pos, i)
    return idx


def l_sort(xs):
    return [xs[i] for i in l_argsort(xs)]


def l_any_nan(xs):
    r = False
    for e in xs:
        r = _logical_or(r, l_isnan(e))
    return r


def l_median(xs):
    _used("median")
    n = len(xs)
    if n == 0:
        return float("nan")
    if bool(l_any_nan(xs)):
        return float("nan")
    s = l_sort(xs)
    if n % 2:
        return s[n // 2]
    return elem_apply(np.true_divide, elem_apply(np.add, s[n // 2 - 1], s[n // 2]), 2.0)


def _interp_sorted(s, idx):
    """NumPy's lerp in a sorted list at a concrete fractional index:
    a + (b - a) * t, computed even for t == 0 (so infinities give NaN as in
    NumPy)."""
    n = len(s)
    idx = min(max(idx, 0.0), n - 1.0)
    lo = int(math.floor(idx))
    hi = min(lo + 1, n - 1)
    frac = idx - lo
    d = elem_apply(np.subtract, s[hi], s[lo])
    return elem_apply(np.add, s[lo], elem_apply(np.multiply, d, frac))


def _no_inf(xs, what):
    for e in xs:
        if isinstance(e, SymFloat):
            if e.pinf is not False or e.ninf is not False:
                raise Unsupported("%s of possibly infinite values is not modelled" % what)
        elif not is_sym(e) and isinstance(e, float) and math.isinf(e):
            raise Unsupported("%s of infinite values is not modelled" % what)


def l_percentile(xs, q):
    """np.percentile(..., method='linear') for a concrete q in [0, 100]."""
    _used("percentile(linear)")
    if is_sym(q):
        raise Unsupported("symbolic percentile level")
    n = len(xs)
    if n == 0:
        # the installed NumPy (2.x) does not return NaN here
        raise IndexError("index -1 is out of bounds for axis 0 with size 0")
    if not (0 <= q <= 100):
        raise ValueError("Percentiles must be in the range [0, 100]")
    _no_inf(xs, "percentile")
    if bool(l_any_nan(xs)):
        return float("nan")
    s = l_sort(xs)
    import fractions
    idx = float(fractions.Fraction(repr(float(q))) / 100 * (n - 1))
    return _interp_sorted(s, idx)


def l_quantile_nu(xs, q):
    """np.quantile(..., method='normal_unbiased') for concrete q."""
    _used("quantile(normal_unbiased)")
    if is_sym(q):
        raise Unsupported("symbolic quantile level")
    n = len(xs)
    if n == 0:
        raise IndexError("index -1 is out of bounds for axis 0 with size 0")     # as the installed NumPy (2.x)
    if not (0 <= q <= 1):
        raise ValueError("Quantiles must be in the range [0, 1]")
    _no_inf(xs, "quantile")
    if bool(l_any_nan(xs)):
        return float("nan")
    s = l_sort(xs)
    alpha = beta = 3.0 / 8
    idx = n * q + (alpha + q * (1 - alpha - beta)) - 1
    return _interp_sorted(s, idx)


def l_unique(xs):
    _used("unique")
    s = l_sort(xs)
    out = []
    for e in s:
        if out:
            last = out[-1]
            if bool(l_isnan(e)) and bool(l_isnan(last)):
                continue
            if bool(elem_apply(np.equal, e, last)):
                continue
        out.append(e)
    return out


def _np_result(r):
    """A concrete scalar result of a NumPy function is a NumPy scalar, not a Python number: 400 / np.max(x)
    with a zero maximum is inf with a warning, where 400 / 0.0 in Python raises ZeroDivisionError."""
    if type(r) is float:
        return np.float64(r)
    if type(r) is int:
        return np.int64(r)
    return r


def _any_masked(x):
    if isinstance(x, SymArray):
        return x._mask is not None
    if isinstance(x, (list, tuple)):
        return any(_any_masked(e) for e in x)
    return False


def _plain_args(xs):
    out = []
    for x in xs:
        if isinstance(x, SymArray):
            a = np.asarray(x.view(np.ndarray))
            try:
                out.append(a.astype(float) if a.dtype == object else a)
            except (TypeError, ValueError):
                out.append(a)
        elif isinstance(x, list):
            out.append(_plain_args(x))
        elif isinstance(x, tuple):
            out.append(tuple(_plain_args(x)))
        else:
            out.append(x)
    return out


def _rewrap(r):
    if isinstance(r, np.ndarray) and not isinstance(r, np.ma.MaskedArray):
        return sa(r) if r.ndim > 0 else r[()]
    if isinstance(r, tuple):
        return tuple(_rewrap(e) for e in r)
    if isinstance(r, list):
        return [_rewrap(e) for e in r]
    return r


# ------------------------------------------------------------------ the array
class SymArray(np.ndarray):
    _mask = None

    def __array_finalize__(self, obj):
        self._mask = None

    def __array_ufunc__(self, ufunc, method, *inputs, **kwargs):
        return dispatch_ufunc(ufunc, method, inputs, kwargs)

    def __array_function__(self, func, types, args, kwargs):
        h = HANDLERS.get(func)
        if h is not None:
            return _np_result(h(*args, **kwargs))
        if func in PASS_THROUGH:
            return super().__array_function__(func, types, args, kwargs)
        if not has_sym(args) and not has_sym(list(kwargs.values())) and not _any_masked(args):
            # every element is a concrete number on this path: the library function itself is run
            # on plain float arrays (no model involved) and its result is wrapped again
            MODELS_USED.add("numpy.%s (concrete operands: the library itself)" % getattr(func, "__name__", func))
            r = func(*_plain_args(args), **{k: _plain_args([v])[0] for k, v in kwargs.items()})
            return _rewrap(r)
        raise Unsupported("numpy.%s on symbolic arrays is not modelled" % getattr(func, "__name__", func))

    # -- indexing
    def __getitem__(self, key):
        key = _concretise_key(key)
        r = np.ndarray.__getitem__(self, key)
        if self._mask is not None and isinstance(r, SymArray):
            r._mask = self._mask[key]
        return r

    def __setitem__(self, key, value):
        if value is np.ma.masked:
            value = float("nan")
        if _is_sym_mask(key):
            mask = to_obj(key)
            if mask.shape == self.shape:
                if isinstance(value, np.ndarray) and value.ndim > 0:
                    if value.shape != self.shape:
                        key = _concretise_key(key)
                        return np.ndarray.__setitem__(self, key, value)
                    vflat = to_obj(value).reshape(-1)
                else:
                    vflat = None
                base = self.view(np.ndarray)
                mflat = mask.reshape(-1)
                it = np.ndindex(*self.shape)
                for i, idx in enumerate(it):
                    v = value if vflat is None else vflat[i]
                    base[idx] = _ite(mflat[i], unwrap(v), base[idx])
                return
            key = _concretise_key(key)
        else:
            key = _concretise_key(key)
        if isinstance(value, np.ndarray) and value.ndim > 0:
            probe = np.ndarray.__getitem__(self.view(np.ndarray), key)
            if not isinstance(probe, np.ndarray):
                # NumPy >= 2.x strictness for numeric arrays (DESIGN 2.3)
                raise ValueError("setting an array element with a sequence.")
            value = to_obj(value)
        elif isinstance(value, np.generic):
            value = value.item()
        np.ndarray.__setitem__(self.view(np.ndarray), key, value)

    def __bool__(self):
        if self.size != 1:
            raise ValueError("The truth value of an array with more than one element is ambiguous. Use a.any() or a.all()")
        return bool(self.reshape(-1)[0])

    def __float__(self):
        if self.ndim > 0:
            raise TypeError("only 0-dimensional arrays can be converted to Python scalars")
        return float(self[()])

    def __int__(self):
        if self.ndim > 0:
            raise TypeError("only 0-dimensional arrays can be converted to Python scalars")
        return int(self[()])

    def __deepcopy__(self, memo):
        r = np.ndarray.copy(self)
        if self._mask is not None:
            r._mask = self._mask.copy()
        return r

    def __contains__(self, item):
        return bool(np.any(self == item))

    # -- methods that NumPy would run in C on the object dtype
    def astype(self, dtype, *a, **k):
        dt = np.dtype(norm_dtype(dtype))
        out = np.empty(self.shape, dtype=object)
        of = out.reshape(-1)
        sf = self.view(np.ndarray).reshape(-1)
        for i in range(sf.shape[0]):
            e = sf[i]
            if dt.kind == "f":
                if isinstance(e, (SymBool, SymInt)):
                    e = V.lift(e)
                elif not is_sym(e):
                    e = float(e)
            elif dt.kind in "iu":
                if isinstance(e, SymFloat):
                    e = V.sym_int(e)
                elif isinstance(e, SymBool):
                    e = V.as_int01(e)
                elif not is_sym(e):
                    e = int(e)
            elif dt.kind == "b":
                if isinstance(e, (SymFloat, SymInt)):
                    e = (e != 0)
                elif not is_sym(e):
                    e = bool(e)
            of[i] = e
        out = out.view(SymArray)
        if self._mask is not None:
            out._mask = self._mask.copy()
        return out

    def sum(self, axis=None, **k): return f_sum(self, axis=axis, **k)
    def mean(self, axis=None, **k): return f_mean(self, axis=axis, **k)
    def min(self, axis=None, **k): return f_min(self, axis=axis, **k)
    def max(self, axis=None, **k): return f_max(self, axis=axis, **k)
    def std(self, axis=None, **k): return f_std(self, axis=axis, **k)
    def var(self, axis=None, **k): return f_var(self, axis=axis, **k)
    def any(self, axis=None, **k): return f_any(self, axis=axis)
    def all(self, axis=None, **k): return f_all(self, axis=axis)
    def cumsum(self, axis=None, **k): return f_cumsum(self, axis=axis)
    def argsort(self, axis=-1, **k): return f_argsort(self, axis=axis)
    def nonzero(self): return f_where(self)

    def sort(self, axis=-1, **k):
        self[...] = f_sort(self, axis=axis)

    def tolist(self):
        return self.view(np.ndarray).tolist()

    def item(self, *a):
        return self.view(np.ndarray).item(*a)

    def fill(self, v):
        self.view(np.ndarray).fill(v)


class IntArr(np.ndarray):
    """Plain integer array (the result of a modelled argsort) that can be indexed with symbolic positions."""
    def __getitem__(self, key):
        r = np.ndarray.__getitem__(self, _concretise_key(key))
        return r.view(np.ndarray) if isinstance(r, np.ndarray) and r.ndim == 0 else r


def _is_sym_mask(key):
    if isinstance(key, np.ndarray) and key.dtype == object and key.size:
        first = key.reshape(-1)[0]
        if isinstance(first, (bool, SymBool, np.bool_)):
            return any(isinstance(e, SymBool) for e in key.flat)
    return False


def _boolish_array(key):
    if isinstance(key, np.ndarray) and key.dtype == object:
        return all(isinstance(e, (bool, SymBool, np.bool_)) for e in key.flat)
    return False


def _concretise_one(key):
    if isinstance(key, np.ndarray) and key.dtype == object:
        k = key.view(np.ndarray)
        if _boolish_array(k):
            out = np.zeros(k.shape, dtype=bool)
            of = out.reshape(-1)
            kf = k.reshape(-1)
            for i in range(kf.shape[0]):
                of[i] = bool(kf[i])
            return out
        if any(is_sym(e) for e in k.flat):
            # positions computed from symbolic values (np.searchsorted counts): one path per feasible position
            if all(isinstance(e, (SymInt, int, np.integer)) and not _isboolish(e) for e in k.flat):
                from .calmodel import concretise_int
                out = np.zeros(k.shape, dtype=int)
                of, kf = out.reshape(-1), k.reshape(-1)
                for i in range(kf.shape[0]):
                    of[i] = concretise_int(kf[i], "index") if is_sym(kf[i]) else int(kf[i])
                return out
            raise Unsupported("symbolic integer index")
        return np.array(k.tolist()) if k.size else np.zeros(k.shape, dtype=int)
    if isinstance(key, SymInt):
        from .calmodel import concretise_int
        return concretise_int(key, "index")
    if isinstance(key, SymFloat):
        raise Unsupported("symbolic integer index")
    if isinstance(key, SymBool):
        return bool(key)
    if isinstance(key, list) and any(isinstance(e, SymBool) for e in key):
        return [bool(e) for e in key]
    if isinstance(key, SymArray):
        return key.view(np.ndarray)
    return key


def _concretise_key(key):
    if isinstance(key, tuple):
        return tuple(_concretise_one(k) for k in key)
    return _concretise_one(key)


# ---------------------------------------------------------- function handlers
def _ax(fn1d):
    def h(a, axis=None, dtype=None, out=None, keepdims=False, **kw):
        if out is not None:
            raise Unsupported("out= on a modelled reduction")
        kw.pop("initial", None)
        kw.pop("where", None)
        if keepdims is np._NoValue:
            keepdims = False
        return along_axis(a, axis, lambda xs: fn1d(xs, **kw), keepdims)
    return h


def _masked_list(a):
    """For masked arrays: (values, mask) flattened along nothing -- helper."""
    return to_obj(a), (to_obj(a._mask) if isinstance(a, SymArray) and a._mask is not None else None)


def f_sum(a, axis=None, **kw):
    a = sa(a)
    if a._mask is not None:
        return ma_sum(a, axis=axis)
    return _ax(l_sum)(a, axis=axis, **kw)


def f_mean(a, axis=None, **kw):
    a = sa(a)
    if a._mask is not None:
        return ma_mean(a, axis=axis)
    return _ax(l_mean)(a, axis=axis, **kw)


_f_nansum = _ax(l_nansum)
_f_nanmean = _ax(l_nanmean)


def f_nansum(a, axis=None, **kw):
    a = sa(a)
    if a._mask is not None:       # NumPy's nan-functions respect the mask of a masked array
        return ma_sum(a, axis=axis)
    return _f_nansum(a, axis=axis, **kw)


def f_nanmean(a, axis=None, **kw):
    a = sa(a)
    if a._mask is not None:
        return ma_mean(a, axis=axis)
    return _f_nanmean(a, axis=axis, **kw)
f_min = _ax(l_min)
f_max = _ax(l_max)
f_nanmin = _ax(l_nanmin)
f_nanmax = _ax(l_nanmax)


def f_var(a, axis=None, dtype=None, out=None, ddof=0, keepdims=False, **kw):
    return along_axis(a, axis, lambda xs: l_var(xs, ddof), keepdims if keepdims is not np._NoValue else False)


def f_std(a, axis=None, dtype=None, out=None, ddof=0, keepdims=False, **kw):
    return along_axis(a, axis, lambda xs: l_std(xs, ddof), keepdims if keepdims is not np._NoValue else False)


def f_median(a, axis=None, out=None, overwrite_input=False, keepdims=False):
    return along_axis(a, axis, l_median, keepdims)


def f_percentile(a, q, axis=None, out=None, overwrite_input=False, method="linear", keepdims=False, **kw):
    if method != "linear":
        raise Unsupported("percentile method %s" % method)
    if isinstance(q, (list, tuple, np.ndarray)) and np.ndim(q) > 0:
        return sa([to_obj(along_axis(a, axis, lambda xs, qq=qq: l_percentile(xs, qq), keepdims)) for qq in q])
    return along_axis(a, axis, lambda xs: l_percentile(xs, q), keepdims)


def f_quantile(a, q, axis=None, out=None, overwrite_input=False, method="linear", keepdims=False, **kw):
    if method == "linear":
        return f_percentile(a, q * 100, axis=axis, keepdims=keepdims)
    if method != "normal_unbiased":
        raise Unsupported("quantile method %s" % method)
    return along_axis(a, axis, lambda xs: l_quantile_nu(xs, q), keepdims)


def _cum(xs, nan_as_zero=False):
    out = []
    acc = 0
    for e in xs:
        if nan_as_zero:
            e = _ite(l_isnan(e), 0.0, e)
        acc = elem_apply(np.add, acc, e)
        out.append(acc)
    return out


def _along_axis_vec(a, axis, fn):
    """fn(list)->list of the same length, applied along axis."""
    arr = to_obj(a)
    if axis is None:
        arr = arr.reshape(-1)
        axis = 0
    moved = np.moveaxis(arr, axis, -1)
    if moved.size == 0:
        return sa(arr.copy())
    res = np.empty(moved.shape, dtype=object)
    rf = res.reshape(-1, moved.shape[-1]) if moved.ndim else res
    mf = moved.reshape(-1, moved.shape[-1])
    for i in range(mf.shape[0]):
        r = fn(list(mf[i]))
        for j, e in enumerate(r):
            rf[i, j] = e
    return np.moveaxis(res, -1, axis).view(SymArray)


def f_cumsum(a, axis=None, dtype=None, out=None):
    return _along_axis_vec(a, axis, lambda xs: _cum(xs))


def f_nancumsum(a, axis=None, dtype=None, out=None):
    return _along_axis_vec(a, axis, lambda xs: _cum(xs, True))


def f_sort(a, axis=-1, kind=None, order=None, **kw):
    return _along_axis_vec(a, axis, l_sort)


def f_argsort(a, axis=-1, kind=None, order=None, **kw):
    unspecified = kind not in ("stable", "mergesort")
    r = _along_axis_vec(a, axis, lambda xs: l_argsort(xs, ties_unspecified=unspecified))
    return np.array(r.tolist(), dtype=int).reshape(r.shape).view(IntArr)


def f_unique(ar, return_index=False, return_inverse=False, return_counts=False, axis=None, **kw):
    if return_index or return_inverse or return_counts or axis is not None:
        raise Unsupported("np.unique with extra outputs")
    return sa(l_unique(list(to_obj(ar).reshape(-1))))


def f_intersect1d(ar1, ar2, assume_unique=False, return_indices=False):
    _used("intersect1d")
    if return_indices:
        raise Unsupported("intersect1d return_indices")
    a = l_unique(list(to_obj(ar1).reshape(-1)))
    b = l_unique(list(to_obj(ar2).reshape(-1)))
    out = []
    for x in a:
        for y in b:
            if bool(elem_apply(np.equal, x, y)):
                out.append(x)
                break
    return sa(out)


def f_isin(element, test_elements, assume_unique=False, invert=False, **kw):
    _used("isin")
    el = to_obj(element)
    te = list(to_obj(test_elements).reshape(-1))
    out = np.empty(el.shape, dtype=object)
    of = out.reshape(-1)
    ef = el.reshape(-1)
    for i in range(ef.shape[0]):
        r = False
        for t in te:
            r = _logical_or(r, elem_apply(np.equal, ef[i], t))
        of[i] = _logical_not(r) if invert else r
    return unwrap(out.view(SymArray))


def f_isclose(a, b, rtol=1e-05, atol=1e-08, equal_nan=False):
    _used("isclose")

    def one(x, y):
        if not is_sym(x) and not is_sym(y):
            return bool(np.isclose(x, y, rtol=rtol, atol=atol, equal_nan=equal_nan))
        fin = _logical_and(elem_apply(np.isfinite, x), elem_apply(np.isfinite, y))
        near = elem_apply(np.less_equal, abs(elem_apply(np.subtract, x, y)),
                          elem_apply(np.add, atol, elem_apply(np.multiply, rtol, abs(y))))
        r = _logical_or(_logical_and(fin, near),
                        _logical_and(_logical_not(fin), elem_apply(np.equal, x, y)))
        if equal_nan:
            r = _logical_or(r, _logical_and(l_isnan(x), l_isnan(y)))
        return r
    A, B = np.broadcast_arrays(to_obj(a), to_obj(b))
    out = np.empty(A.shape, dtype=object)
    of, af, bf = out.reshape(-1), A.reshape(-1), B.reshape(-1)
    for i in range(af.shape[0]):
        of[i] = one(af[i], bf[i])
    return unwrap(out.view(SymArray))


def f_where(condition, x=None, y=None):
    if x is None and y is None:
        c = to_obj(condition)
        conc = np.zeros(c.shape, dtype=bool)
        cf, of = c.reshape(-1), conc.reshape(-1)
        for i in range(cf.shape[0]):
            of[i] = bool(cf[i])
        return np.nonzero(conc)
    C, X, Y = np.broadcast_arrays(to_obj(condition), to_obj(x), to_obj(y))
    out = np.empty(C.shape, dtype=object)
    of, cf, xf, yf = out.reshape(-1), C.reshape(-1), X.reshape(-1), Y.reshape(-1)
    for i in range(cf.shape[0]):
        of[i] = _ite(cf[i] if _isboolish(cf[i]) else (cf[i] != 0), xf[i], yf[i])
    return unwrap(out.view(SymArray))


def f_any(a, axis=None, **kw):
    def fold(xs):
        r = False
        for e in xs:
            r = _logical_or(r, e if _isboolish(e) else (e != 0))
        return r
    return along_axis(a, axis, fold)


def f_all(a, axis=None, **kw):
    def fold(xs):
        r = True
        for e in xs:
            r = _logical_and(r, e if _isboolish(e) else (e != 0))
        return r
    return along_axis(a, axis, fold)


def f_count_nonzero(a, axis=None, **kw):
    return along_axis(a, axis, lambda xs: l_sum([_ite(e if _isboolish(e) else (e != 0), 1, 0) for e in xs]))


def f_searchsorted(a, v, side="left", sorter=None):
    """Insertion index in an ascending array without NaN: the number of elements
    < v (left) or <= v (right), as a symbolic count (no fork)."""
    _used("searchsorted")
    xs = list(to_obj(a).reshape(-1))
    if sorter is not None:
        # documented: sorter = indices that sort `a` into ascending order; the count below does not depend on the
        # order of the elements, only on `a[sorter]` being a permutation of `a` -- which is checked
        idx = [int(i) for i in to_obj(sorter).reshape(-1)]
        if sorted(idx) != list(builtins_range(len(xs))):
            raise Unsupported("np.searchsorted: sorter is not a permutation")
    if bool(l_any_nan(xs)):
        raise Unsupported("np.searchsorted in an array with NaN")
    op = np.less if side == "left" else np.less_equal

    def one(val):
        if bool(l_isnan(val)):
            return len(xs)        # NaN sorts after everything
        return l_sum([_ite(elem_apply(op, e, val), 1, 0) for e in xs])
    vv = to_obj(v)
    if vv.ndim == 0:
        return one(vv[()])
    out = np.empty(vv.shape, dtype=object)
    of, vf = out.reshape(-1), vv.reshape(-1)
    for i in builtins_range(vf.shape[0]):
        of[i] = one(vf[i])
    return out.view(SymArray)


def f_nan_to_num(x, copy=True, nan=0.0, posinf=None, neginf=None):
    _used("nan_to_num")
    big = np.finfo(float).max

    def one(e):
        if not is_sym(e):
            return _np_scalar(lambda v: np.nan_to_num(v, nan=nan, posinf=posinf, neginf=neginf), e)
        f = V.lift(e)
        r = V.v_ite(f.nan, nan, f)
        r = V.v_ite(V.lift(r).pinf, big if posinf is None else posinf, r)
        r = V.v_ite(V.lift(r).ninf, -big if neginf is None else neginf, r)
        return r
    arr = to_obj(x)
    out = np.empty(arr.shape, dtype=object)
    of, af = out.reshape(-1), arr.reshape(-1)
    for i in range(af.shape[0]):
        of[i] = one(af[i])
    return unwrap(out.view(SymArray))


def f_histogram(a, bins=10, range=None, density=None, weights=None):
    """Counts per bin for explicit edges; last bin closed; NaN in no bin.
    The bin of every value is decided by forking (like searchsorted), so the
    counts are concrete integers on each path."""
    _used("histogram(explicit edges, last bin closed; bin of each value decided by forking)")
    if range is not None or density or weights is not None or np.ndim(bins) == 0:
        raise Unsupported("np.histogram with automatic bins")
    edges = list(to_obj(bins).reshape(-1))
    xs = list(to_obj(a).reshape(-1))
    nb = len(edges) - 1
    counts = [0] * nb
    for x in xs:
        if bool(l_isnan(x)):
            continue
        if bool(elem_apply(np.less, x, edges[0])):
            continue
        placed = False
        for j in builtins_range(1, nb + 1):
            if bool(elem_apply(np.less, x, edges[j])):
                counts[j - 1] += 1
                placed = True
                break
        if not placed and bool(elem_apply(np.equal, x, edges[nb])):
            counts[nb - 1] += 1
    return sa(counts), np.asarray(bins)


builtins_range = range


def f_corrcoef(x, y=None, rowvar=True, **kw):
    _used("corrcoef(2 vectors)")
    if y is None:
        raise Unsupported("corrcoef of a matrix")
    xs = list(to_obj(x).reshape(-1))
    ys = list(to_obj(y).reshape(-1))
    mx, my = l_mean(xs), l_mean(ys)
    dx = [e - mx for e in xs]
    dy = [e - my for e in ys]
    sxy = l_sum([a * b for a, b in zip(dx, dy)])
    sxx = l_sum([a * a for a in dx])
    syy = l_sum([b * b for b in dy])
    c = elem_apply(np.true_divide, sxy, elem_apply(np.sqrt, elem_apply(np.multiply, sxx, syy)))
    d0 = elem_apply(np.true_divide, sxx, sxx)   # 1, or NaN when the variance is 0
    d1 = elem_apply(np.true_divide, syy, syy)
    out = np.empty((2, 2), dtype=object)
    out[0, 0], out[1, 1], out[0, 1], out[1, 0] = d0, d1, c, c
    return out.view(SymArray)


def f_cov(x, y=None, **kw):
    """np.cov of two vectors: the sample covariance matrix (ddof = 1)."""
    _used("cov(2 vectors, ddof=1)")
    if y is None or kw:
        raise Unsupported("cov of a matrix / with options")
    xs = list(to_obj(x).reshape(-1))
    ys = list(to_obj(y).reshape(-1))
    n = len(xs)
    mx, my = l_mean(xs), l_mean(ys)
    dx = [e - mx for e in xs]
    dy = [e - my for e in ys]
    den = float(n - 1)

    def dv(v):
        return elem_apply(np.true_divide, v, den)
    out = np.empty((2, 2), dtype=object)
    out[0, 0] = dv(l_sum([a * a for a in dx]))
    out[1, 1] = dv(l_sum([b * b for b in dy]))
    out[0, 1] = out[1, 0] = dv(l_sum([a * b for a, b in zip(dx, dy)]))
    return out.view(SymArray)


def f_round(a, decimals=0, out=None):
    """np.round: exact on concrete values; on a symbolic value it is the
    identity when the value provably has at most `decimals` decimals (over the
    reals), otherwise unsupported."""
    arr = to_obj(a)
    if not has_sym(arr):
        if arr.size == 0:
            return sa(arr.copy())
        return sa(np.round(np.array(arr.tolist(), dtype=float), decimals))
    _used("round(x, d) = x when x*10^d is provably integral")
    res = np.empty(arr.shape, dtype=object)
    rf, af = res.reshape(-1), arr.reshape(-1)
    scale = 10 ** decimals
    for i in builtins_range(af.shape[0]):
        e = af[i]
        if not is_sym(e):
            rf[i] = float(np.round(e, decimals))
            continue
        x = V.lift(e)
        scaled = x.val * scale
        integral = V.mkbool(V._fold(z3.simplify(z3.ToReal(z3.ToInt(scaled)) == scaled)))
        ctx = core.current()
        # must hold on the whole path: proven, not branched on
        ob_ok = integral is True
        if not ob_ok:
            ctx.solver.push()
            ctx.solver.add(z3.Not(integral.e))
            r = ctx._check()
            ctx.solver.pop()
            ob_ok = (r == z3.unsat)
        if not ob_ok:
            raise Unsupported("np.round of a symbolic value that may need rounding")
        rf[i] = e
    return res.view(SymArray)


def f_array_equal(a1, a2, equal_nan=False):
    A, B = to_obj(a1), to_obj(a2)
    if A.shape != B.shape:
        return False
    return f_all(sa(A) == sa(B))


def f_copy(a, order="K", subok=False):
    return sa(to_obj(a).copy())


def f_mean_dispatch(a, axis=None, **kw):
    return f_mean(a, axis=axis, **kw)


# ---- masked arrays (np.ma.masked_array / filled / sum / mean on symbolic masks)
def ma_make(data, mask=False, **kw):
    _used("np.ma.masked_array")
    d = sa(to_obj(data).copy())
    m = to_obj(mask)
    if m.shape != d.shape:
        m = np.broadcast_to(m, d.shape).copy()
    d._mask = sa(m)
    return d


def ma_filled(a, fill_value=None):
    _used("np.ma.filled")
    if isinstance(a, SymArray) and a._mask is not None:
        data = a.view(np.ndarray)
        if fill_value is None:
            # the array's own fill value: NumPy's default for the kind of its values
            if data.size and all(_isboolish(e) for e in data.flat):
                fill_value = True
            elif data.size and all(isinstance(e, (int, np.integer, SymInt)) and not _isboolish(e) for e in data.flat):
                fill_value = 999999
            else:
                fill_value = 1e20
        if data.size and all(_isboolish(e) for e in data.flat) and not _isboolish(fill_value):
            # NumPy keeps the bool dtype of the masked array: the fill value is cast (NaN -> True)
            fill_value = bool(fill_value)
        r = f_where(a._mask, fill_value, data.view(SymArray))
        return r
    if isinstance(a, np.ma.MaskedArray):
        return np.ma.filled(a, fill_value)
    return a


def ma_sum(a, axis=None, **kw):
    _used("np.ma.sum")
    if isinstance(a, SymArray) and a._mask is not None:
        data = f_where(a._mask, 0, a.view(np.ndarray).view(SymArray))
        cnt = f_where(a._mask, 0, 1)

        def one(pairs):
            vals = [p[0] for p in pairs]
            n = l_sum([p[1] for p in pairs])
            # all masked -> np.ma.masked, which ends up as NaN in a float slot
            return _ite(elem_apply(np.equal, n, 0), float("nan"), l_sum(vals))
        paired = np.empty(to_obj(data).shape, dtype=object)
        pf, df, cf_ = paired.reshape(-1), to_obj(data).reshape(-1), to_obj(cnt).reshape(-1)
        for i in builtins_range(pf.shape[0]):
            pf[i] = (df[i], cf_[i])
        return along_axis(paired, axis, one)
    if isinstance(a, SymArray):
        return f_sum(a, axis=axis)
    return np.ma.sum(a, axis=axis)


def ma_mean(a, axis=None, **kw):
    _used("np.ma.mean")
    if isinstance(a, SymArray) and a._mask is not None:
        data = f_where(a._mask, 0, a.view(np.ndarray).view(SymArray))
        cnt = f_where(a._mask, 0, 1)
        s = along_axis(data, axis, l_sum)
        n = along_axis(cnt, axis, l_sum)
        return np.true_divide(s, n) if isinstance(s, np.ndarray) else elem_apply(np.true_divide, s, n)
    return f_mean(a, axis=axis)


HANDLERS = {
    np.sum: f_sum, np.mean: f_mean, np.nansum: f_nansum, np.nanmean: f_nanmean,
    np.min: f_min, np.max: f_max, np.amin: f_min, np.amax: f_max,
    np.nanmin: f_nanmin, np.nanmax: f_nanmax, np.std: f_std, np.var: f_var,
    np.median: f_median, np.percentile: f_percentile, np.quantile: f_quantile,
    np.cumsum: f_cumsum, np.nancumsum: f_nancumsum, np.sort: f_sort, np.argsort: f_argsort,
    np.unique: f_unique, np.intersect1d: f_intersect1d, np.isin: f_isin,
    np.isclose: f_isclose, np.where: f_where, np.nonzero: lambda a: f_where(a),
    np.any: f_any, np.all: f_all, np.count_nonzero: f_count_nonzero,
    np.nan_to_num: f_nan_to_num, np.histogram: f_histogram, np.corrcoef: f_corrcoef, np.cov: f_cov,
    np.round: f_round, np.around: f_round, np.array_equal: f_array_equal, np.copy: f_copy,
    np.searchsorted: f_searchsorted,
}

PASS_THROUGH = {
    np.reshape, np.ravel, np.transpose, np.moveaxis, np.swapaxes, np.expand_dims, np.squeeze,
    np.concatenate, np.stack, np.vstack, np.hstack, np.tile, np.repeat, np.flip, np.take,
    np.broadcast_to, np.broadcast_arrays, np.diff, np.shape, np.ndim, np.size, np.atleast_1d,
    np.atleast_2d, np.append, np.delete, np.insert, np.roll, np.array_split, np.split,
    np.zeros_like, np.ones_like, np.empty_like, np.full_like, np.meshgrid, np.outer, np.dot,
    np.fliplr, np.flipud, np.rollaxis, np.column_stack, np.dstack, np.trapezoid, np.interp
} - {np.interp}


# ------------------------------------------------------------------ np proxy
class _MaProxy(object):
    masked = np.ma.masked
    MaskedArray = np.ma.MaskedArray

    def masked_array(self, data, mask=False, **kw):
        if has_sym(data) or has_sym(mask) or isinstance(data, SymArray) or isinstance(mask, SymArray):
            return ma_make(data, mask, **kw)
        return np.ma.masked_array(data, mask=mask, **kw)
    array = masked_array

    def filled(self, a, fill_value=None):
        return ma_filled(a, fill_value)

    def is_masked(self, a):
        _used("np.ma.is_masked")
        if isinstance(a, SymArray) and a._mask is not None:
            return f_any(a._mask)
        if isinstance(a, np.ma.MaskedArray):
            return np.ma.is_masked(a)
        return False

    def getmaskarray(self, a):
        _used("np.ma.getmaskarray")
        if isinstance(a, SymArray) and a._mask is not None:
            return a._mask
        if isinstance(a, np.ma.MaskedArray):
            return np.ma.getmaskarray(a)
        return sa(np.zeros(np.shape(a), dtype=bool))

    def sum(self, a, axis=None, **kw):
        if is_sym(a):
            return a
        return ma_sum(a, axis=axis)

    def mean(self, a, axis=None, **kw):
        return ma_mean(a, axis=axis)

    def __getattr__(self, name):
        raise Unsupported("np.ma.%s is not modelled" % name)


class _RandomProxy(object):
    def __getattr__(self, name):
        raise Unsupported("np.random.%s: randomness is outside the model" % name)


def _wrap_args(args):
    out = []
    for a in args:
        if isinstance(a, (list, tuple)) and has_sym(a):
            try:
                out.append(sa(a))
            except ValueError:
                # a sequence of arrays of different lengths (np.concatenate([[1], x, [0]])): wrap each one
                out.append([sa(e) if isinstance(e, (list, tuple, np.ndarray)) else e for e in a])
        elif is_sym(a):
            out.append(a)
        else:
            out.append(a)
    return out


class NpProxy(object):
    """Stands in for the `np` global of verif modules.  Resolves every name on
    the installed NumPy first (so a function NumPy no longer has fails exactly
    as it does for a user)."""

    def __init__(self):
        self.ma = _MaProxy()
        self.random = _RandomProxy()

    def __getattr__(self, name):
        real = getattr(np, name)     # AttributeError propagates, e.g. np.in1d
        if name in _CONSTRUCTORS:
            return _CONSTRUCTORS[name]
        if isinstance(real, np.ufunc):
            if name in _EXACT_UFUNCS:
                return _exact_ufunc(real)
            return real
        if callable(real) and not isinstance(real, type):
            def wrapper(*args, **kwargs):
                args = _wrap_args(args)
                if any(is_sym(a) for a in args) and not any(isinstance(a, SymArray) for a in args):
                    # scalar symbolic argument to a non-ufunc: wrap as 0-d array
                    args = [sa(a) if is_sym(a) else a for a in args]
                return real(*args, **kwargs)
            wrapper.__name__ = name
            return wrapper
        return real


_EXACT_UFUNCS = ("log", "log2", "log10", "exp")   # sqrt of a concrete double stays a double (compare with S.close)


def _exact_ufunc(real):
    """sqrt/log/exp of *concrete* numbers inside verif code are kept exact
    (algebraic symbol / uninterpreted function) instead of being rounded to a
    double: arithmetic is over the reals (DESIGN 2.2), and the same function
    applied to a symbolic value that equals the constant must agree with it."""
    def wrapper(x, *args, **kwargs):
        if core.current() is None or args or kwargs or not getattr(core.current(), "exact_constant_functions", True):
            return real(x, *args, **kwargs)
        if isinstance(x, (SymArray,)) or is_sym(x):
            return real(x)
        if isinstance(x, (int, float, np.floating, np.integer)) and not isinstance(x, bool):
            xf = float(x)
            if math.isnan(xf) or math.isinf(xf):
                return real(x)
            return SYM_UFUNC[real](V.lift(xf))
        if isinstance(x, np.ndarray) and x.dtype.kind in "fiu":
            out = np.empty(x.shape, dtype=object)
            of, xf = out.reshape(-1), x.reshape(-1)
            for i in range(xf.shape[0]):
                v = float(xf[i])
                of[i] = real(v).item() if (math.isnan(v) or math.isinf(v)) else SYM_UFUNC[real](V.lift(v))
            return out.view(SymArray)
        return real(x)
    wrapper.__name__ = real.__name__
    return wrapper


def _c_zeros(shape, dtype=float, **kw):
    base = np.zeros(shape, dtype=norm_dtype(dtype))
    return sa(base)


def _c_ones(shape, dtype=float, **kw):
    return sa(np.ones(shape, dtype=norm_dtype(dtype)))


def _c_empty(shape, dtype=float, **kw):
    return sa(np.zeros(shape, dtype=norm_dtype(dtype)))


def _c_full(shape, fill_value, dtype=None, **kw):
    out = np.empty(shape, dtype=object)
    out.fill(fill_value)
    return out.view(SymArray)


def _c_array(obj, dtype=None, *a, **kw):
    dtype = norm_dtype(dtype)
    if isinstance(obj, SymArray):
        r = obj.copy()
        r._mask = None
    elif isinstance(obj, np.ma.MaskedArray):
        return np.array(obj, dtype, *a, **kw)
    else:
        if isinstance(obj, np.ndarray) and obj.dtype != object and dtype is None:
            r = sa(obj.copy())
        else:
            r = sa(to_obj(obj).copy())
    if dtype is not None:
        dt = np.dtype(dtype)
        if dt.kind in "fiub":
            r = r.astype(dt)
        elif dt.kind in "USO":
            return np.array(obj, dtype, *a, **kw)
    if r.dtype == object and r.size and isinstance(r.reshape(-1)[0], str):
        return np.array(obj, dtype, *a, **kw)
    return r


def _c_asarray(obj, dtype=None, **kw):
    dtype = norm_dtype(dtype)
    if isinstance(obj, SymArray) and dtype is None:
        return obj
    return _c_array(obj, dtype)


def _c_zeros_like(a, dtype=None, **kw):
    return _c_zeros(np.shape(a), dtype or float)


def _c_ones_like(a, dtype=None, **kw):
    return _c_ones(np.shape(a), dtype or float)


def _c_linspace(start, stop, num=50, endpoint=True, **kw):
    if not (is_sym(start) or is_sym(stop)):
        return sa(np.linspace(start, stop, num, endpoint=endpoint, **kw))
    _used("linspace")
    if is_sym(num):
        raise Unsupported("linspace with symbolic num")
    div = (num - 1) if endpoint else num
    out = []
    for i in range(num):
        if endpoint and i == num - 1 and num > 1:
            out.append(stop)
        elif div == 0:
            out.append(start)
        else:
            out.append(start + (stop - start) * i / div)
    return sa(out)


ARANGE_UNWIND = 12


def _c_arange(*args, **kw):
    if not has_sym(list(args)):
        return sa(np.arange(*args, **kw))
    _used("arange(start, stop, step) on symbolic arguments: length decided by forking, unwinding bound %d" % ARANGE_UNWIND)
    if kw or len(args) != 3:
        raise Unsupported("arange form")
    start, stop, step = args
    if bool(step == 0):
        raise ZeroDivisionError("division by zero")
    out = []
    pos = bool(step > 0)
    i = 0
    while True:
        v = start + i * step
        inside = (v < stop) if pos else (v > stop)
        if not bool(inside):
            break
        out.append(v)
        i += 1
        if i > ARANGE_UNWIND:
            raise core.BoundExceeded("np.arange longer than %d elements" % ARANGE_UNWIND)
    return sa(out)


_CONSTRUCTORS = {
    "zeros": _c_zeros, "ones": _c_ones, "empty": _c_empty, "full": _c_full,
    "array": _c_array, "asarray": _c_asarray, "zeros_like": _c_zeros_like,
    "ones_like": _c_ones_like, "linspace": _c_linspace, "arange": _c_arange,
}

np_proxy = NpProxy()


def _avg_ranks(xs):
    """Average ranks (ties share the mean rank); the order relations are
    decided by forking, so the ranks are concrete numbers on each path."""
    out = []
    for i, x in enumerate(xs):
        less = sum(1 for y in xs if bool(elem_apply(np.less, y, x)))
        equal = sum(1 for y in xs if bool(elem_apply(np.equal, y, x)))
        out.append(less + 1 + (equal - 1) / 2.0)
    return out


class _CorrResult(tuple):
    statistic = property(lambda self: self[0])
    correlation = property(lambda self: self[0])
    pvalue = property(lambda self: self[1])


def m_spearmanr(a, b=None, **kw):
    """scipy.stats.spearmanr(a, b): Pearson correlation of the average ranks
    (NaN when either vector is constant).  p-value not modelled (NaN)."""
    _used("scipy.stats.spearmanr (Pearson correlation of average ranks)")
    if b is None or kw:
        raise Unsupported("spearmanr form")
    xs, ys = list(to_obj(a).reshape(-1)), list(to_obj(b).reshape(-1))
    if len(xs) != len(ys):
        raise ValueError("All inputs to `spearmanr` must be of the same size")
    if bool(l_any_nan(xs + ys)):
        return _CorrResult((float("nan"), float("nan")))
    if len(xs) < 2:
        return _CorrResult((float("nan"), float("nan")))
    rx, ry = _avg_ranks(xs), _avg_ranks(ys)
    c = f_corrcoef(sa(rx), sa(ry))
    return _CorrResult((to_obj(c)[1, 0], float("nan")))


def m_kendalltau(a, b, **kw):
    """scipy.stats.kendalltau (tau-b)."""
    _used("scipy.stats.kendalltau (tau-b)")
    if kw:
        raise Unsupported("kendalltau options")
    xs, ys = list(to_obj(a).reshape(-1)), list(to_obj(b).reshape(-1))
    if bool(l_any_nan(xs + ys)) or len(xs) < 2:
        return _CorrResult((float("nan"), float("nan")))
    conc = disc = tx = ty = 0.0
    for i in builtins_range(len(xs)):
        for j in builtins_range(i + 1, len(xs)):
            dx = elem_apply(np.subtract, xs[i], xs[j])
            dy = elem_apply(np.subtract, ys[i], ys[j])
            sx = 1 if bool(elem_apply(np.greater, dx, 0)) else (-1 if bool(elem_apply(np.less, dx, 0)) else 0)
            sy = 1 if bool(elem_apply(np.greater, dy, 0)) else (-1 if bool(elem_apply(np.less, dy, 0)) else 0)
            conc += 1.0 if sx * sy > 0 else 0.0
            disc += 1.0 if sx * sy < 0 else 0.0
            tx += 1.0 if (sx == 0 and sy != 0) else 0.0
            ty += 1.0 if (sy == 0 and sx != 0) else 0.0
    den = elem_apply(np.sqrt, elem_apply(np.multiply, conc + disc + tx, conc + disc + ty))
    return _CorrResult((elem_apply(np.true_divide, conc - disc, den), float("nan")))


_SCIPY_MODELS = {"scipy.stats.spearmanr": m_spearmanr, "scipy.stats.kendalltau": m_kendalltau}


class ScipyProxy(object):
    """Stands in for the `scipy` global of verif modules: SciPy runs on
    concrete arguments; a call with symbolic arguments is outside the model."""
    def __init__(self, real, path="scipy"):
        self._real = real
        self._path = path

    def __getattr__(self, name):
        import types
        real = getattr(self._real, name)
        path = "%s.%s" % (self._path, name)
        if isinstance(real, types.ModuleType) or (not callable(real) and hasattr(real, "__dict__") and not isinstance(real, np.ndarray)):
            return ScipyProxy(real, path)
        if callable(real):
            if hasattr(real, "ppf") or hasattr(real, "cdf"):
                return ScipyProxy(real, path)

            def wrapper(*args, **kwargs):
                if has_sym(list(args)) or has_sym(list(kwargs.values())):
                    if path in _SCIPY_MODELS:
                        return _SCIPY_MODELS[path](*args, **kwargs)
                    raise Unsupported("%s on symbolic values is not modelled" % path)
                # object arrays with concrete content go to SciPy as float arrays
                args = [np.array(a.tolist(), dtype=float) if isinstance(a, SymArray) else a for a in args]
                return real(*args, **kwargs)
            return wrapper
        return real
