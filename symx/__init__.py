"""symx -- a small concolic executor for the real WFRT/verif code.

The unmodified verif functions run under CPython on values whose operators
build z3 terms (symx.values), held in real NumPy object arrays (symx.arrays);
``bool()`` of a symbolic condition asks the path manager (symx.core) which way
to go.  See /verif/DESIGN.md section 2.
"""
