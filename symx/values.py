"""Symbolic scalar values (DESIGN.md 2.2).

SymFloat: element of R u {NaN, +inf, -inf}: a z3 Real plus three flags that are
Python bools when known and z3 Bools otherwise.  IEEE-754 semantics on the
flags, exact real arithmetic on finite values.
SymInt:   z3 Int.      SymBool: z3 Bool; bool() forks through the path manager.
"""
import math
import fractions
import z3

from . import core
from .core import Unsupported


# ------------------------------------------------------------------ bool algebra
def b_and(*xs):
    out = []
    for x in xs:
        if x is False:
            return False
        if x is True:
            continue
        out.append(x)
    if not out:
        return True
    if len(out) == 1:
        return out[0]
    return z3.And(*out)


def b_or(*xs):
    out = []
    for x in xs:
        if x is True:
            return True
        if x is False:
            continue
        out.append(x)
    if not out:
        return False
    if len(out) == 1:
        return out[0]
    return z3.Or(*out)


def b_not(x):
    if x is True:
        return False
    if x is False:
        return True
    return z3.Not(x)


def b_if(c, a, b):
    if c is True:
        return a
    if c is False:
        return b
    if a is b:
        return a
    if a is True and b is False:
        return c
    if a is False and b is True:
        return z3.Not(c)
    # keep flags in and/or/not form (decisions on them decompose into literals)
    if a is True:
        return b_or(c, b)
    if b is False:
        return b_and(c, a)
    if a is False:
        return b_and(z3.Not(c), b)
    if b is True:
        return b_or(z3.Not(c), a)
    return z3.If(c, _zb(a), _zb(b))


def b_xor(a, b):
    if a is True:
        return b_not(b)
    if a is False:
        return b
    if b is True:
        return b_not(a)
    if b is False:
        return a
    return z3.Xor(a, b)


def b_implies(a, b):
    return b_or(b_not(a), b)


def _zb(x):
    if x is True:
        return z3.BoolVal(True)
    if x is False:
        return z3.BoolVal(False)
    return x


def _fold(e):
    """Return Python bool for literal true/false, else the expression."""
    if z3.is_true(e):
        return True
    if z3.is_false(e):
        return False
    return e


def real_const(x):
    """Exact z3 Real for a Python number (decimal literals are taken as the
    decimal they print as -- arithmetic is over the reals, DESIGN 2.2)."""
    if isinstance(x, bool):
        return z3.RealVal(1 if x else 0)
    if isinstance(x, int):
        return z3.RealVal(x)
    if isinstance(x, fractions.Fraction):
        return z3.RealVal(str(x))
    x = float(x)
    if x == int(x) and abs(x) < 1e18:
        return z3.RealVal(int(x))
    return z3.RealVal(repr(x))


def is_sym(x):
    return isinstance(x, (SymFloat, SymInt, SymBool))


def unbool(x):
    """Python bool or z3 Bool from a SymBool / bool / numpy bool."""
    if isinstance(x, SymBool):
        return x.e
    if isinstance(x, (bool,)):
        return x
    if hasattr(x, "dtype") and x.shape == ():
        return bool(x)
    if isinstance(x, z3.BoolRef):
        return _fold(x)
    if isinstance(x, (int, float)):
        return bool(x)
    if isinstance(x, (SymFloat, SymInt)):
        return unbool(x != 0)
    raise Unsupported("not a boolean: %r" % (x,))


def mkbool(e):
    if e is True or e is False:
        return e
    e = _fold(e)
    if e is True or e is False:
        return e
    return SymBool(e)


# ------------------------------------------------------------------------ SymBool
class SymBool(object):
    __slots__ = ("e",)
    __array_priority__ = 1000

    def __init__(self, e):
        self.e = e

    def __bool__(self):
        ctx = core.current()
        if ctx is None:
            raise Unsupported("symbolic bool outside an exploration")
        return ctx.branch(self.e)

    def __hash__(self):
        return 7

    def __deepcopy__(self, memo):
        return self

    def __repr__(self):
        return "SymBool(%s)" % self.e

    def __and__(self, o):
        if _is_array(o):
            return NotImplemented
        if isinstance(o, (SymFloat, SymInt)) or (isinstance(o, (int, float)) and not isinstance(o, bool)):
            return as_int01(self) & o
        return mkbool(b_and(self.e, unbool(o)))
    __rand__ = __and__

    def __or__(self, o):
        if _is_array(o):
            return NotImplemented
        return mkbool(b_or(self.e, unbool(o)))
    __ror__ = __or__

    def __xor__(self, o):
        if _is_array(o):
            return NotImplemented
        return mkbool(b_xor(self.e, unbool(o)))
    __rxor__ = __xor__

    def __invert__(self):
        return mkbool(b_not(self.e))

    def __eq__(self, o):
        if _is_array(o):
            return NotImplemented
        if isinstance(o, (SymBool, bool)) or (hasattr(o, "dtype") and o.dtype == bool):
            return mkbool(b_not(b_xor(self.e, unbool(o))))
        if isinstance(o, (int, float)):
            if o == 0:
                return mkbool(b_not(self.e))
            if o == 1:
                return self
            return False
        return as_num(self) == o

    def __ne__(self, o):
        r = self.__eq__(o)
        if r is NotImplemented:
            return r
        return v_not(r)

    # numeric use: True == 1
    def _num(self):
        return as_num(self)

    def __add__(self, o): return _arith(self, o, "add")
    def __radd__(self, o): return _arith(o, self, "add")
    def __sub__(self, o): return _arith(self, o, "sub")
    def __rsub__(self, o): return _arith(o, self, "sub")
    def __mul__(self, o): return _arith(self, o, "mul")
    def __rmul__(self, o): return _arith(o, self, "mul")
    def __truediv__(self, o): return _arith(self, o, "div")
    def __rtruediv__(self, o): return _arith(o, self, "div")
    def __lt__(self, o): return as_num(self) < o
    def __le__(self, o): return as_num(self) <= o
    def __gt__(self, o): return as_num(self) > o
    def __ge__(self, o): return as_num(self) >= o
    def __neg__(self): return -as_num(self)
    def __float__(self): raise Unsupported("float() of a symbolic bool")
    def __int__(self): raise Unsupported("int() of a symbolic bool")
    def __index__(self): raise Unsupported("symbolic bool used as an index")

    def __array_ufunc__(self, ufunc, method, *inputs, **kwargs):
        from . import arrays
        return arrays.dispatch_ufunc(ufunc, method, inputs, kwargs)


def _is_array(o):
    import numpy as np
    return isinstance(o, np.ndarray) and o.ndim > 0


def as_int01(b):
    if isinstance(b, SymBool):
        return SymInt(z3.If(b.e, z3.IntVal(1), z3.IntVal(0)))
    return int(b)


def as_num(b):
    return as_int01(b)


# ------------------------------------------------------------------------- SymInt
class SymInt(object):
    __slots__ = ("e",)
    __array_priority__ = 1000

    def __init__(self, e):
        self.e = e

    def __hash__(self):
        return 7

    def __deepcopy__(self, memo):
        return self

    def __repr__(self):
        return "SymInt(%s)" % self.e

    def __bool__(self):
        return bool(self != 0)

    def __float__(self):
        raise Unsupported("float() of a symbolic int reached C code")

    def __int__(self):
        raise Unsupported("int() of a symbolic int reached C code")

    def __index__(self):
        # a table looked up at a symbolic position: one path per feasible value (solver-driven forking)
        from .calmodel import concretise_int
        return concretise_int(self, "index")

    def to_float(self):
        return SymFloat(z3.ToReal(self.e))

    def _other(self, o):
        if isinstance(o, SymInt):
            return o.e
        if isinstance(o, SymBool):
            return as_int01(o).e
        if isinstance(o, bool):
            return z3.IntVal(int(o))
        if isinstance(o, int):
            return z3.IntVal(o)
        if hasattr(o, "dtype") and o.shape == () and o.dtype.kind in "iub":
            return z3.IntVal(int(o))
        return None

    def _bin(self, o, op, swap=False):
        if _is_array(o):
            return NotImplemented
        oe = self._other(o)
        if oe is None:
            a, b = (o, self.to_float()) if swap else (self.to_float(), o)
            return _arith(a, b, op)
        a, b = (oe, self.e) if swap else (self.e, oe)
        if op == "add":
            return SymInt(a + b)
        if op == "sub":
            return SymInt(a - b)
        if op == "mul":
            return SymInt(a * b)
        if op == "div":
            return _arith(SymFloat(z3.ToReal(a)), SymFloat(z3.ToReal(b)), "div")
        if op in ("floordiv", "mod"):
            bb = z3.simplify(b)
            if not z3.is_int_value(bb) or bb.as_long() <= 0:
                raise Unsupported("// or % by a non-constant or non-positive integer")
            return SymInt(a / b) if op == "floordiv" else SymInt(a % b)
        if op == "pow":
            if z3.is_int_value(z3.simplify(b)):
                n = z3.simplify(b).as_long()
                if 0 <= n <= 4:
                    r = z3.IntVal(1)
                    for _ in range(n):
                        r = r * a
                    return SymInt(r)
            return _arith(SymFloat(z3.ToReal(a)), SymFloat(z3.ToReal(b)), "pow")
        raise Unsupported(op)

    def __add__(self, o): return self._bin(o, "add")
    def __radd__(self, o): return self._bin(o, "add", True)
    def __sub__(self, o): return self._bin(o, "sub")
    def __rsub__(self, o): return self._bin(o, "sub", True)
    def __mul__(self, o): return self._bin(o, "mul")
    def __rmul__(self, o): return self._bin(o, "mul", True)
    def __truediv__(self, o): return self._bin(o, "div")
    def __rtruediv__(self, o): return self._bin(o, "div", True)
    def __floordiv__(self, o): return self._bin(o, "floordiv")
    def __rfloordiv__(self, o): return self._bin(o, "floordiv", True)
    def __mod__(self, o): return self._bin(o, "mod")
    def __rmod__(self, o): return self._bin(o, "mod", True)
    def __pow__(self, o): return self._bin(o, "pow")
    def __neg__(self): return SymInt(-self.e)
    def __pos__(self): return self
    def __abs__(self): return SymInt(z3.If(self.e >= 0, self.e, -self.e))

    def _cmp(self, o, op):
        if _is_array(o):
            return NotImplemented
        oe = self._other(o)
        if oe is None:
            return _compare(self.to_float(), o, op)
        a, b = self.e, oe
        if op == "lt":
            return mkbool(a < b)
        if op == "le":
            return mkbool(a <= b)
        if op == "gt":
            return mkbool(a > b)
        if op == "ge":
            return mkbool(a >= b)
        if op == "eq":
            return mkbool(a == b)
        if op == "ne":
            return mkbool(a != b)

    def __lt__(self, o): return self._cmp(o, "lt")
    def __le__(self, o): return self._cmp(o, "le")
    def __gt__(self, o): return self._cmp(o, "gt")
    def __ge__(self, o): return self._cmp(o, "ge")
    def __eq__(self, o): return self._cmp(o, "eq")
    def __ne__(self, o): return self._cmp(o, "ne")

    def __array_ufunc__(self, ufunc, method, *inputs, **kwargs):
        from . import arrays
        return arrays.dispatch_ufunc(ufunc, method, inputs, kwargs)


# ----------------------------------------------------------------------- SymFloat
class SymFloat(object):
    __slots__ = ("val", "nan", "pinf", "ninf")
    __array_priority__ = 1000

    def __init__(self, val, nan=False, pinf=False, ninf=False):
        self.val = val
        self.nan = nan
        self.pinf = pinf
        self.ninf = ninf

    def __hash__(self):
        return 7

    def __deepcopy__(self, memo):
        return self

    def __repr__(self):
        return "SymFloat(%s, nan=%s, pinf=%s, ninf=%s)" % (self.val, self.nan, self.pinf, self.ninf)

    def __str__(self):
        ctx = core.current()
        if ctx is not None and (ctx.allow_realize or ctx.message_floats):
            return repr(float(self))       # what str() of a float prints
        return self.__repr__()

    def __format__(self, spec):
        return format(float(self), spec)

    @property
    def plain(self):
        return self.pinf is False and self.ninf is False

    def finite(self):
        return b_and(b_not(self.nan), b_not(self.pinf), b_not(self.ninf))

    def __bool__(self):
        return bool(self != 0)

    def __float__(self):
        ctx = core.current()
        if ctx is not None and ctx.message_floats:
            # a number formatted into a message (warning text): a representative value of the
            # current model, not pinned; such strings are outside the claim
            ctx.message_float_count += 1
            m = ctx._ensure_model()
            from .session import eval_under
            return float(eval_under(m, self))
        if ctx is None or not ctx.allow_realize:
            raise Unsupported("float() of a symbolic number reached C code")
        return realize(self)

    def __int__(self):
        raise Unsupported("int() of a symbolic number reached C code")

    def __index__(self):
        raise Unsupported("symbolic number used as an index")

    def __add__(self, o): return _arith(self, o, "add")
    def __radd__(self, o): return _arith(o, self, "add")
    def __sub__(self, o): return _arith(self, o, "sub")
    def __rsub__(self, o): return _arith(o, self, "sub")
    def __mul__(self, o): return _arith(self, o, "mul")
    def __rmul__(self, o): return _arith(o, self, "mul")
    def __truediv__(self, o): return _arith(self, o, "div")
    def __rtruediv__(self, o): return _arith(o, self, "div")
    def __floordiv__(self, o): return _arith(self, o, "floordiv")
    def __rfloordiv__(self, o): return _arith(o, self, "floordiv")
    def __mod__(self, o): return _arith(self, o, "mod")
    def __rmod__(self, o): return _arith(o, self, "mod")
    def __pow__(self, o): return _arith(self, o, "pow")
    def __rpow__(self, o): return _arith(o, self, "pow")
    def __neg__(self): return SymFloat(-self.val, self.nan, self.ninf, self.pinf)
    def __pos__(self): return self
    def __abs__(self): return v_abs(self)

    def __round__(self, ndigits=None):
        """builtin round(): to the nearest integer, ties to the even one (an int
        without ndigits, a float with ndigits == 0)."""
        if ndigits not in (None, 0):
            raise Unsupported("round() to a number of digits")
        if bool(mkbool(self.nan)):
            if ndigits is None:
                raise ValueError("cannot convert float NaN to integer")
            return self
        if bool(mkbool(_isinf(self))):
            if ndigits is None:
                raise OverflowError("cannot convert float infinity to integer")
            return self
        half = self.val + z3.RealVal(1) / 2
        r = z3.ToInt(half)
        r = z3.If(z3.And(z3.ToReal(r) == half, r % 2 == 1), r - 1, r)
        return SymInt(r) if ndigits is None else SymFloat(z3.ToReal(r))

    def __lt__(self, o): return _compare(self, o, "lt")
    def __le__(self, o): return _compare(self, o, "le")
    def __gt__(self, o): return _compare(self, o, "gt")
    def __ge__(self, o): return _compare(self, o, "ge")
    def __eq__(self, o): return _compare(self, o, "eq")
    def __ne__(self, o): return _compare(self, o, "ne")

    def __array_ufunc__(self, ufunc, method, *inputs, **kwargs):
        from . import arrays
        return arrays.dispatch_ufunc(ufunc, method, inputs, kwargs)


def lift(x):
    """Any scalar -> SymFloat (or None if not a number)."""
    if isinstance(x, SymFloat):
        return x
    if isinstance(x, SymInt):
        return x.to_float()
    if isinstance(x, SymBool):
        return as_int01(x).to_float()
    if isinstance(x, (bool, int)):
        return SymFloat(real_const(x))
    if isinstance(x, float) or (hasattr(x, "dtype") and getattr(x, "shape", None) == () and x.dtype.kind in "fiub"):
        x = float(x)
        if math.isnan(x):
            return SymFloat(z3.RealVal(0), True)
        if x == math.inf:
            return SymFloat(z3.RealVal(0), False, True, False)
        if x == -math.inf:
            return SymFloat(z3.RealVal(0), False, False, True)
        return SymFloat(real_const(x))
    if isinstance(x, fractions.Fraction):
        return SymFloat(real_const(x))
    return None


def _arith(a, b, op):
    if _is_array(a) or _is_array(b):
        return NotImplemented
    import numpy as np
    if a is np.ma.masked or b is np.ma.masked:
        return np.ma.masked
    # int-preserving paths
    if isinstance(a, (SymInt, SymBool)) and not isinstance(b, (SymFloat, float)) and op != "div":
        ai = as_int01(a) if isinstance(a, SymBool) else a
        if ai._other(b) is not None:
            return ai._bin(b, op)
    if isinstance(b, (SymInt, SymBool)) and not isinstance(a, (SymFloat, float)) and op != "div":
        bi = as_int01(b) if isinstance(b, SymBool) else b
        if bi._other(a) is not None:
            return bi._bin(a, op, True)
    x = lift(a)
    y = lift(b)
    if x is None or y is None:
        return NotImplemented
    return {"add": v_add, "sub": v_sub, "mul": v_mul, "div": v_div, "pow": v_pow,
            "floordiv": v_floordiv, "mod": v_mod}[op](x, y)


def _compare(a, b, op):
    if _is_array(a) or _is_array(b):
        return NotImplemented
    x = lift(a)
    y = lift(b)
    if x is None or y is None:
        if op == "eq":
            return False
        if op == "ne":
            return True
        return NotImplemented
    if op == "lt":
        return mkbool(e_lt(x, y))
    if op == "le":
        return mkbool(e_le(x, y))
    if op == "gt":
        return mkbool(e_lt(y, x))
    if op == "ge":
        return mkbool(e_le(y, x))
    if op == "eq":
        return mkbool(e_eq(x, y))
    if op == "ne":
        return mkbool(b_not(e_eq(x, y)))


def _isinf(x):
    return b_or(x.pinf, x.ninf)


def _neg(x):
    """x is negative (incl. -inf), assuming not NaN."""
    if x.plain:
        return _fold(z3.simplify(x.val < 0))
    return b_or(x.ninf, b_and(b_not(x.pinf), _fold(z3.simplify(x.val < 0))))


def _zero(x):
    """x is a finite zero, assuming not NaN."""
    z = _fold(z3.simplify(x.val == 0))
    if x.plain:
        return z
    return b_and(b_not(x.pinf), b_not(x.ninf), z)


def v_add(x, y):
    if x.plain and y.plain:
        return SymFloat(x.val + y.val, b_or(x.nan, y.nan))
    nan = b_or(x.nan, y.nan, b_and(x.pinf, y.ninf), b_and(x.ninf, y.pinf))
    return SymFloat(x.val + y.val, nan, b_and(b_not(nan), b_or(x.pinf, y.pinf)),
                    b_and(b_not(nan), b_or(x.ninf, y.ninf)))


def v_sub(x, y):
    return v_add(x, SymFloat(-y.val, y.nan, y.ninf, y.pinf))


def v_mul(x, y):
    if x.plain and y.plain:
        return SymFloat(x.val * y.val, b_or(x.nan, y.nan))
    xi, yi = _isinf(x), _isinf(y)
    nan = b_or(x.nan, y.nan, b_and(xi, _zero(y)), b_and(yi, _zero(x)))
    inf = b_and(b_not(nan), b_or(xi, yi))
    neg = b_xor(_neg(x), _neg(y))
    return SymFloat(x.val * y.val, nan, b_and(inf, b_not(neg)), b_and(inf, neg))


def _is_abs_of(y, x):
    """y.val is the term v_abs builds for x.val"""
    e = y.val
    if z3.is_app_of(e, z3.Z3_OP_ITE) and e.num_args() == 3:
        c, a, b = e.arg(0), e.arg(1), e.arg(2)
        if a.get_id() == x.val.get_id() and z3.is_app_of(c, z3.Z3_OP_GE) and c.arg(0).get_id() == x.val.get_id():
            neg = z3.simplify(-x.val)
            return z3.simplify(b).get_id() == neg.get_id()
    return False


def v_div(x, y):
    if x.plain and y.plain and x.nan is False and y.nan is False and _is_abs_of(y, x):
        # x / |x| = sign(x): keeps step-sign computations linear (0/0 = NaN)
        zero = _fold(z3.simplify(x.val == 0))
        return SymFloat(z3.If(x.val > 0, z3.RealVal(1), z3.RealVal(-1)), zero)
    yz = _zero(y)
    if x.plain and y.plain and yz is False:
        return SymFloat(x.val / y.val, b_or(x.nan, y.nan))
    xi, yi = _isinf(x), _isinf(y)
    xz = _zero(x)
    nan = b_or(x.nan, y.nan, b_and(xi, yi), b_and(xz, yz))
    inf = b_and(b_not(nan), b_or(xi, yz))
    # sign of a zero divisor is taken as +0 (signed zero is outside the claim)
    neg = b_xor(_neg(x), b_and(b_not(yz), _neg(y)))
    if yz is True:
        val = z3.RealVal(0)
    else:
        val = x.val / y.val
        if yi is not False:
            val = z3.If(_zb(yi), z3.RealVal(0), val)
        if yz is not False:
            val = z3.If(_zb(yz), z3.RealVal(0), val)
    return SymFloat(val, nan, b_and(inf, b_not(neg)), b_and(inf, neg))


def _floor_int(val):
    return z3.ToInt(val)


def v_floordiv(x, y):
    q = v_div(x, y)
    return v_floor(q)


def v_mod(x, y):
    # Python/NumPy: x - floor(x/y)*y (sign of divisor); finite operands only
    q = v_floordiv(x, y)
    r = v_sub(x, v_mul(q, y))
    yz = _zero(y)
    if yz is not False:
        r = v_ite(yz, lift(float("nan")), r)
    return r


def v_floor(x):
    return SymFloat(z3.ToReal(z3.ToInt(x.val)), x.nan, x.pinf, x.ninf)


def v_ceil(x):
    return SymFloat(-z3.ToReal(z3.ToInt(-x.val)), x.nan, x.pinf, x.ninf)


def v_trunc(x):
    return SymFloat(z3.If(x.val >= 0, z3.ToReal(z3.ToInt(x.val)), -z3.ToReal(z3.ToInt(-x.val))),
                    x.nan, x.pinf, x.ninf)


def v_abs(x):
    if isinstance(x, SymInt):
        return abs(x)
    x = lift(x)
    return SymFloat(z3.If(x.val >= 0, x.val, -x.val), x.nan, b_or(x.pinf, x.ninf), False)


def v_ite(c, a, b):
    """c: bool/z3 Bool; a, b: scalars (numbers or bools)."""
    if c is True:
        return a
    if c is False:
        return b
    if isinstance(a, (bool, SymBool)) and isinstance(b, (bool, SymBool)):
        return mkbool(b_if(c, unbool(a), unbool(b)))
    if isinstance(a, (SymInt, int)) and isinstance(b, (SymInt, int)) and not isinstance(a, bool) and not isinstance(b, bool):
        ae = a.e if isinstance(a, SymInt) else z3.IntVal(a)
        be = b.e if isinstance(b, SymInt) else z3.IntVal(b)
        return SymInt(z3.If(c, ae, be))
    x, y = lift(a), lift(b)
    if x is None or y is None:
        raise Unsupported("ite over non-numbers %r %r" % (a, b))
    return SymFloat(z3.If(c, x.val, y.val), b_if(c, x.nan, y.nan), b_if(c, x.pinf, y.pinf),
                    b_if(c, x.ninf, y.ninf))


def e_lt(x, y):
    nn = b_and(b_not(x.nan), b_not(y.nan))
    if x.plain and y.plain:
        return b_and(nn, _fold(z3.simplify(x.val < y.val)))
    return b_and(nn, b_or(b_and(x.ninf, b_not(y.ninf)), b_and(y.pinf, b_not(x.pinf)),
                          b_and(b_not(_isinf(x)), b_not(_isinf(y)), x.val < y.val)))


def e_le(x, y):
    nn = b_and(b_not(x.nan), b_not(y.nan))
    if x.plain and y.plain:
        return b_and(nn, _fold(z3.simplify(x.val <= y.val)))
    return b_and(nn, b_or(x.ninf, y.pinf,
                          b_and(b_not(_isinf(x)), b_not(_isinf(y)), x.val <= y.val)))


def e_eq(x, y):
    nn = b_and(b_not(x.nan), b_not(y.nan))
    if x.plain and y.plain:
        return b_and(nn, _fold(z3.simplify(x.val == y.val)))
    return b_and(nn, b_or(b_and(x.pinf, y.pinf), b_and(x.ninf, y.ninf),
                          b_and(b_not(_isinf(x)), b_not(_isinf(y)), x.val == y.val)))


def e_same(x, y):
    """Bitwise-style sameness: both NaN, or equal (oracle use)."""
    return b_or(b_and(x.nan, y.nan), e_eq(x, y))


def v_not(x):
    if isinstance(x, SymBool):
        return ~x
    return not x


# -------------------------------------------------------- transcendental symbols
_UF = {}


def _uf(name):
    if name not in _UF:
        _UF[name] = z3.Function(name, z3.RealSort(), z3.RealSort())
    return _UF[name]


def v_sqrt(x):
    x = lift(x)
    ctx = core.current()
    sv = z3.simplify(x.val)
    if z3.is_rational_value(sv):
        fr = fractions.Fraction(sv.numerator_as_long(), sv.denominator_as_long())
        if fr >= 0:
            rn, rd = math.isqrt(fr.numerator), math.isqrt(fr.denominator)
            if rn * rn == fr.numerator and rd * rd == fr.denominator:
                return SymFloat(real_const(fractions.Fraction(rn, rd)), b_or(x.nan, x.ninf), x.pinf, False)
    # sqrt is a function: the same argument term (after simplification with
    # the literals decided on this path) gets the same symbol
    memo = ctx.__dict__.setdefault("_sqrt_memo", {})
    x = SymFloat(ctx.simplify_under_facts(x.val), x.nan, x.pinf, x.ninf)
    key = x.val.get_id()
    if key in memo:
        r = memo[key][0]
    else:
        r = z3.Real(ctx.fresh("sqrt"))
        ctx.define(z3.And(r >= 0, z3.Implies(x.val >= 0, r * r == x.val), z3.Implies(x.val < 0, r == 0)), symbol=r)
        memo[key] = (r, x.val)
    neg = _fold(z3.simplify(x.val < 0))
    return SymFloat(r, b_or(x.nan, x.ninf, b_and(b_not(x.pinf), neg)), x.pinf, False)


def v_cbrt_pow(x):
    """x ** (1/3) with NumPy semantics (NaN for negative x)."""
    x = lift(x)
    ctx = core.current()
    memo = ctx.__dict__.setdefault("_cbrt_memo", {})
    x = SymFloat(ctx.simplify_under_facts(x.val), x.nan, x.pinf, x.ninf)
    key = x.val.get_id()
    if key in memo:
        r = memo[key][0]
    else:
        r = z3.Real(ctx.fresh("cbrt"))
        ctx.define(z3.And(r >= 0, z3.Implies(x.val >= 0, r * r * r == x.val), z3.Implies(x.val < 0, r == 0)), symbol=r)
        memo[key] = (r, x.val)
    neg = _fold(z3.simplify(x.val < 0))
    return SymFloat(r, b_or(x.nan, x.ninf, b_and(b_not(x.pinf), neg)), x.pinf, False)


def v_pow(x, y):
    sy = z3.simplify(y.val)
    if y.nan is False and y.plain and z3.is_rational_value(sy):
        fr = fractions.Fraction(sy.numerator_as_long(), sy.denominator_as_long())
        if fr.denominator == 1 and 0 <= fr.numerator <= 4:
            n = fr.numerator
            if n == 0:
                return SymFloat(z3.RealVal(1))
            r = x
            for _ in range(n - 1):
                r = v_mul(r, x)
            return r
        if fr == fractions.Fraction(1, 2):
            return v_sqrt(x)
        if fr == fractions.Fraction(1, 3) or abs(float(fr) - 1.0 / 3) < 1e-12:
            return v_cbrt_pow(x)
        if fr == -1:
            return v_div(lift(1.0), x)
    raise Unsupported("power with exponent %s" % y.val)


def _mono_fn(name, x, domain_pos):
    """Uninterpreted strictly increasing function with a few anchor axioms.
    Monotonicity/injectivity is instantiated against all previous
    applications on this path (DESIGN 2.2)."""
    ctx = core.current()
    ctx.uf_used = True
    f = _uf(name)
    key = "_apps_" + name
    apps = ctx.__dict__.setdefault(key, [])
    arg = x.val
    for other in apps:
        ctx.define(z3.And(z3.Implies(other < arg, f(other) < f(arg)),
                          z3.Implies(other > arg, f(other) > f(arg))))
    apps.append(arg)
    return f(arg)


def v_log(x, base=None):
    x = lift(x)
    ctx = core.current()
    name = "log" if base is None else "log%d" % base
    val = _mono_fn(name, x, True)
    if "_anch_" + name not in ctx.__dict__:
        ctx.__dict__["_anch_" + name] = True
        ctx.define(_uf(name)(z3.RealVal(1)) == 0)
        apps = ctx.__dict__["_apps_" + name]
        one = z3.RealVal(1)
        for other in apps:
            ctx.define(z3.And(z3.Implies(other < one, _uf(name)(other) < 0),
                              z3.Implies(other > one, _uf(name)(other) > 0)))
        apps.append(one)
    pos = _fold(z3.simplify(x.val > 0))
    zero = _fold(z3.simplify(x.val == 0))
    fin = b_and(b_not(x.pinf), b_not(x.ninf))
    nan = b_or(x.nan, x.ninf, b_and(fin, b_not(pos), b_not(zero)))
    return SymFloat(val, nan, x.pinf, b_and(b_not(x.nan), fin, zero))


def v_exp(x):
    x = lift(x)
    ctx = core.current()
    val = _mono_fn("exp", x, False)
    ctx.define(val > 0)
    if "_anch_exp" not in ctx.__dict__:
        ctx.__dict__["_anch_exp"] = True
        ctx.define(_uf("exp")(z3.RealVal(0)) == 1)
        apps = ctx.__dict__["_apps_exp"]
        zero = z3.RealVal(0)
        for other in apps:
            ctx.define(z3.And(z3.Implies(other < zero, _uf("exp")(other) < 1),
                              z3.Implies(other > zero, _uf("exp")(other) > 1)))
        apps.append(zero)
    return SymFloat(z3.If(_zb(x.ninf), z3.RealVal(0), val) if x.ninf is not False else val,
                    x.nan, x.pinf, False)


def v_isnan(x):
    if isinstance(x, SymFloat):
        return mkbool(x.nan)
    if isinstance(x, (SymInt, SymBool)):
        return False
    return math.isnan(x)


def v_isinf(x):
    if isinstance(x, SymFloat):
        return mkbool(b_and(b_not(x.nan), _isinf(x)))
    if isinstance(x, (SymInt, SymBool)):
        return False
    return math.isinf(x)


def v_isfinite(x):
    if isinstance(x, SymFloat):
        return mkbool(x.finite())
    if isinstance(x, (SymInt, SymBool)):
        return True
    return math.isfinite(x)


def v_min(a, b):
    """np.minimum semantics (NaN propagates)."""
    x, y = lift(a), lift(b)
    c = e_le(x, y)
    r = v_ite(c, x, y)
    nan = b_or(x.nan, y.nan)
    return SymFloat(r.val, nan, b_and(b_not(nan), r.pinf), b_and(b_not(nan), r.ninf))


def v_max(a, b):
    x, y = lift(a), lift(b)
    c = e_le(y, x)
    r = v_ite(c, x, y)
    nan = b_or(x.nan, y.nan)
    return SymFloat(r.val, nan, b_and(b_not(nan), r.pinf), b_and(b_not(nan), r.ninf))


def realize(x):
    """Concretise a symbolic number to the current model's value."""
    ctx = core.current()
    x = lift(x)
    for flag, value in ((x.nan, float("nan")), (x.pinf, math.inf), (x.ninf, -math.inf)):
        if flag is True:
            return value
        if flag is not False:
            if ctx.branch(flag):
                return value
    return float(ctx.realize_real(x.val))


# ------------------------------------------------------------- builtin shadows
class Token(str):
    """A well-formed numeral in a text source whose numeric content is
    symbolic (DESIGN 2.2): the string structure is concrete, float()/int() of
    it yield the symbolic value, or raise ValueError on the symbolic
    not-a-number flag."""
    sym = None
    bad = False

    def __new__(cls, text, sym, bad=False):
        t = str.__new__(cls, text)
        t.sym = sym
        t.bad = bad
        return t

    def split(self, sep=None, maxsplit=-1):
        return [self]      # a numeral contains no separator

    def strip(self, chars=None):
        return self


class CharPiece(str):
    """A run of characters from {digit, '-', '.'} between separators of a
    command-line argument: the *pattern* (which character is what) is concrete,
    the digits are symbolic integers 0..9.  float() of it follows Python: the
    decimal value for a well-formed numeral, ValueError otherwise."""
    pattern = ""
    digits = ()

    def __new__(cls, pattern, digits):
        t = str.__new__(cls, pattern.replace("d", "0"))
        t.pattern = pattern
        t.digits = list(digits)
        return t

    def split(self, sep=None, maxsplit=-1):
        return [self]

    def well_formed(self):
        import re
        return re.fullmatch(r"-?(d+(\.d*)?|\.d+)", self.pattern) is not None

    def value(self):
        p = self.pattern
        neg = p.startswith("-")
        body = p[1:] if neg else p
        ipart, _, fpart = body.partition(".")
        ds = list(self.digits)
        total = None
        k = 0
        terms = []
        for i in range(len(ipart)):
            terms.append((ds[k], 10 ** (len(ipart) - 1 - i)))
            k += 1
        for j in range(len(fpart)):
            terms.append((ds[k], fractions.Fraction(1, 10 ** (j + 1))))
            k += 1
        val = z3.RealVal(0)
        for d, w in terms:
            de = d.e if isinstance(d, SymInt) else z3.IntVal(int(d))
            val = val + z3.ToReal(de) * real_const(w)
        if neg:
            val = -val
        return SymFloat(val)


def sym_float(x=0.0):
    """Shadow of builtin float() inside verif modules."""
    import numpy as np
    if isinstance(x, CharPiece):
        if not x.well_formed():
            raise ValueError("could not convert string to float: %r" % str(x))
        return x.value()
    if isinstance(x, Token):
        if bool(x.bad):
            raise ValueError("could not convert string to float: %r" % str(x))
        return lift(x.sym)
    if isinstance(x, SymFloat):
        return x
    if isinstance(x, (SymInt, SymBool)):
        return lift(x)
    if isinstance(x, np.ndarray) and x.dtype == object:
        if x.ndim > 0:
            raise TypeError("only 0-dimensional arrays can be converted to Python scalars")
        return sym_float(x.item())
    return float(x)


def sym_int(x=0, *args):
    """Shadow of builtin int() inside verif modules (truncation toward zero)."""
    import numpy as np
    if isinstance(x, Token):
        if bool(x.bad):
            raise ValueError("invalid literal for int() with base 10: %r" % str(x))
        if isinstance(x.sym, SymFloat):
            raise ValueError("invalid literal for int() with base 10: %r" % str(x))
        return x.sym
    if isinstance(x, SymInt):
        return x
    if isinstance(x, SymBool):
        return as_int01(x)
    if isinstance(x, SymFloat):
        if bool(mkbool(x.nan)):
            raise ValueError("cannot convert float NaN to integer")
        if bool(mkbool(_isinf(x))):
            raise OverflowError("cannot convert float infinity to integer")
        return SymInt(z3.If(x.val >= 0, z3.ToInt(x.val), -z3.ToInt(-x.val)))
    if isinstance(x, np.ndarray) and x.dtype == object:
        if x.ndim > 0:
            raise TypeError("only 0-dimensional arrays can be converted to Python scalars")
        return sym_int(x.item())
    return int(x, *args)


class SymSet(object):
    """Shadow of builtin set() inside verif modules: a linear-search set, so
    that membership is decided by == (which forks) and never by hash (symbolic
    values hash to a constant and would otherwise miss equal concrete keys)."""
    def __init__(self, iterable=()):
        self._items = []
        for x in iterable:
            self.add(x)

    def _has(self, x):
        for y in self._items:
            r = (y == x)
            if r is NotImplemented:
                continue
            if bool(r):
                return True
        return False

    def add(self, x):
        if not self._has(x):
            self._items.append(x)

    def __contains__(self, x):
        return self._has(x)

    def __iter__(self):
        return iter(list(self._items))

    def __len__(self):
        return len(self._items)

    def __and__(self, other):
        return SymSet([x for x in self._items if x in other])
    __rand__ = __and__

    def __or__(self, other):
        return SymSet(list(self._items) + list(other))

    def __sub__(self, other):
        return SymSet([x for x in self._items if x not in other])

    def __eq__(self, other):
        other = list(other)
        return len(other) == len(self._items) and all(x in self for x in other)

    def __hash__(self):
        return 11

    def __repr__(self):
        return "SymSet(%r)" % (self._items,)


def sym_set(iterable=()):
    """The shadow installed as `set` (a function, so that module introspection
    with inspect.isclass does not see a new class)."""
    return SymSet(iterable)


class SymArg(str):
    """A command-line argument / text whose *structure* (separators) is
    concrete and whose numerals are symbolic Tokens: `parts` is a list of
    Tokens and separator strings, e.g. [a, ":", s, ":", b, ",", c]."""
    parts = ()

    def __new__(cls, parts):
        t = str.__new__(cls, "".join(str(p) for p in parts))
        t.parts = list(parts)
        return t

    def split(self, sep=None, maxsplit=-1):
        if sep is None or maxsplit != -1:
            raise Unsupported("SymArg.split without an explicit separator")
        groups = [[]]
        for p in self.parts:
            if isinstance(p, (Token, CharPiece)) or p != sep:
                if not isinstance(p, (Token, CharPiece)) and sep in p:
                    raise Unsupported("separator inside a literal part")
                groups[-1].append(p)
            else:
                groups.append([])
        out = []
        for g in groups:
            if len(g) == 0:
                out.append("")
            elif len(g) == 1:
                out.append(g[0])
            else:
                out.append(SymArg(g))
        return out
