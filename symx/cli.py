"""./check front end: run the harnesses of one property, write evidence, report."""
import hashlib
import importlib
import inspect
import json
import os
import sys
import time

VERIF_DIR = os.path.dirname(os.path.dirname(os.path.abspath(__file__)))
if VERIF_DIR not in sys.path:
    sys.path.insert(0, VERIF_DIR)

from symx import load, explore  # noqa: E402

EXIT_OK, EXIT_VIOLATION, EXIT_HARNESS = 0, 1, 2
if hasattr(sys, "set_int_max_str_digits"):
    sys.set_int_max_str_digits(0)       # solver models may contain very long numerals


def known_findings():
    path = os.path.join(VERIF_DIR, "known_findings.json")
    if not os.path.exists(path):
        return []
    with open(path) as f:
        return json.load(f).get("findings", [])


def signature(harness, c):
    s = "%s:%s" % (harness, c["label"])
    if c.get("detail"):
        s += ":" + str(c["detail"])
    return s


def function_evidence(cov):
    """name, file:lines, sha1 of every verif function entered."""
    import linecache
    root = os.path.realpath(load.REPO) + os.sep
    out = []
    for (fn, qual, first) in sorted(cov["funcs"]):
        try:
            lines = linecache.getlines(fn)
            # extent of the function: until the next line with indentation <= def's
            start = first - 1
            indent = len(lines[start]) - len(lines[start].lstrip())
            end = start + 1
            while end < len(lines):
                ln = lines[end]
                if ln.strip() and (len(ln) - len(ln.lstrip())) <= indent and not ln.lstrip().startswith(("#", ")")):
                    break
                end += 1
            src = "".join(lines[start:end])
            sha = hashlib.sha1(src.encode()).hexdigest()[:12]
            out.append({"name": qual, "where": "%s:%d-%d" % (fn[len(root):], first, end), "sha1": sha})
        except Exception:
            out.append({"name": qual, "where": "%s:%d" % (fn[len(root):], first)})
    return out


def anchor_coverage(prop, cov):
    """Fraction of each mechanism anchor range whose code lines were executed."""
    import re
    import linecache
    out = []
    props = {}
    with open(os.path.join(VERIF_DIR, "properties.jsonl")) as f:
        for line in f:
            p = json.loads(line)
            props[p["id"]] = p
    root = os.path.realpath(load.REPO) + os.sep
    hit = {}
    for (fn, ln) in cov["lines"]:
        hit.setdefault(fn[len(root):], set()).add(ln)
    for mech in props[prop]["anchors"]["mechanism"]:
        where = mech["where"]
        for m in re.finditer(r"([\w/]+\.py):([0-9,\- ]+)", where):
            fn = m.group(1)
            for rng in m.group(2).split(","):
                rng = rng.strip()
                if not rng:
                    continue
                if "-" in rng:
                    a, b = [int(x) for x in rng.split("-")]
                else:
                    a = b = int(rng)
                lines = linecache.getlines(os.path.join(root, fn))
                code = [i for i in range(a, min(b, len(lines)) + 1)
                        if lines[i - 1].strip() and not lines[i - 1].strip().startswith(("#", '"""', "'''"))]
                got = [i for i in code if i in hit.get(fn, ())]
                out.append({"anchor": "%s:%d-%d" % (fn, a, b), "mechanism": mech["name"],
                            "lines_executed": len(got), "code_lines": len(code)})
    return out


def run_check(prop, tier, seed):
    t0 = time.time()
    load.load()
    module = "harness.%s" % prop.lower()
    mod = importlib.import_module(module)
    opts = explore.Opts(tier, seed)
    hs = mod.harnesses(tier)
    only = os.environ.get("VERIF_ONLY")      # development aid: run a subset of the harnesses (evidence is not written)
    if only:
        hs = [h for h in hs if any(h.name.startswith(o) for o in only.split(","))]
    cov = {"funcs": set(), "lines": set(), "models": set()}
    summaries = []
    # library-model differential suite (DESIGN 2.8.2)
    from symx import libcheck
    lib_errors = libcheck.run()
    if lib_errors:
        for e in lib_errors:
            print("MODEL-MISMATCH (library model): %s" % e)
        return EXIT_HARNESS
    ex = explore.make_executor(opts.jobs)
    try:
        for h in hs:
            s = explore.explore(module, tier, h.name, opts, ex, cov)
            summaries.append(s)
            print("  %-38s paths=%-6d %s obligations=%d discharged=%d inconclusive=%d witness_ok=%d "
                  "violations=%d unconfirmed=%d solver=%.1fs wall=%.1fs%s" % (
                      h.name, s.paths, json.dumps(s.status, sort_keys=True), s.obligations, s.discharged,
                      s.inconclusive, s.witness_ok, len(s.violations), len(s.unconfirmed), s.solver_time, s.wall,
                      "" if s.exhaustive else " TRUNCATED"))
            sys.stdout.flush()
    finally:
        ex.shutdown(wait=True, cancel_futures=True)

    known = [k for k in known_findings() if k.get("property") == prop]
    open_sigs = {k["signature"]: k for k in known if k.get("status") == "open"}
    harness_errors = []
    new_violations = {}
    known_hit = {}
    for s in summaries:
        for c in s.violations:
            sig = signature(s.harness, c)
            if sig in open_sigs:
                known_hit.setdefault(sig, c)
            else:
                new_violations.setdefault(sig, (s, c))
        for wb in s.witness_bad:
            harness_errors.append("witness replay disagrees with the model in %s path %s: %s" % (
                s.harness, wb["decisions"], json.dumps(explore._jsonable(wb["w"]))[:600]))
        vac = set(l for l in (s.twin_seen - s.twin_sat) if s.labels.get(l, {}).get("sat", 0) == 0)
        if vac and s.exhaustive and s.status.get("ok", 0) > 0:
            harness_errors.append("vacuous oracle (falsified twin never refuted) in %s: %s" % (s.harness, sorted(vac)))
        for c in s.unconfirmed:
            if c["kind"] == "exception":
                harness_errors.append("exception on a symbolic path that the unmodified code does not raise (engine model wrong?) "
                                      "in %s: %s %s" % (s.harness, c.get("detail"), json.dumps(explore._jsonable(c["inputs"]))[:300]))
                break
        if s.status.get("ok", 0) == 0 and s.status.get("exception", 0) == 0:
            harness_errors.append("harness %s completed no path: %s %s" % (s.harness, s.status, s.unsupported))

    anchors = anchor_coverage(prop, cov)
    n_viol = len(new_violations)
    total = lambda f: sum(f(s) for s in summaries)  # noqa: E731
    samples = []
    for s in summaries:
        samples.extend(s.samples[:2])
    evidence = {
        "property_id": prop,
        "tier": tier,
        "seed": seed,
        "level": "model_checking",
        "coverage": {
            "states": total(lambda s: s.status.get("ok", 0) + s.status.get("exception", 0)),
            "transitions": total(lambda s: s.transitions),
            "traces_validated_against_impl": total(lambda s: s.witness_ok),
            "samples": samples[:12] or [{"note": "no completed path"}],
            "obligations": total(lambda s: s.obligations),
            "discharged": total(lambda s: s.discharged),
            # solver-unknown obligations plus counterexamples that did not reproduce on the real code
            "inconclusive": total(lambda s: s.inconclusive + len(s.unconfirmed)),
            "exhaustive": all(s.exhaustive for s in summaries),
            "paths_explored": total(lambda s: s.paths),
            "path_status": {s.harness: s.status for s in summaries},
            "unsupported": {s.harness: s.unsupported for s in summaries if s.unsupported},
            "queries": total(lambda s: s.queries),
            "solver_time_s": round(total(lambda s: s.solver_time), 2),
            "witness_skipped": total(lambda s: s.witness_skipped),
            "unconfirmed_counterexamples": total(lambda s: len(s.unconfirmed)),
            "branch_feasibility_unknown": total(lambda s: s.branch_unknown),
            "realisations": total(lambda s: s.realized),
            "solver_portfolio_fallbacks": {s.harness: s.portfolio for s in summaries if s.portfolio},
            "harnesses": [{"name": s.harness, "doc": s.doc, "paths": s.paths, "max_depth": s.max_depth,
                           "obligations_by_label": s.labels, "wall_s": round(s.wall, 2),
                           "exhaustive": s.exhaustive} for s in summaries],
            "bounds": getattr(mod, "BOUNDS", {}).get(tier, {}),
            "functions_encoded": function_evidence(cov),
            "anchor_coverage": anchors,
            "library_models_used": sorted(cov["models"]),
            "stubs": getattr(mod, "STUBS", []),
            "solver": "z3 %s (Python API, in-process, incremental); obligations it cannot decide are retried on a fresh "
                      "non-incremental z3 solver, then on the /usr/bin/cvc5 binary and then on the /usr/bin/z3 4.8.12 binary; per-query timeout %d ms" % (
                          __import__("z3").get_version_string(), opts.query_timeout_ms),
            "known_findings_reported": sorted(known_hit),
            "explanation": "states = feasible completed paths of the real code under symbolic inputs; "
                           "transitions = branch decisions taken; traces_validated_against_impl = paths whose "
                           "solver model was replayed on the unmodified code with real NumPy and agreed",
        },
        "assumptions": getattr(mod, "ASSUMPTIONS", []) + [
            "arithmetic over extended reals: IEEE rounding, overflow, signed zero and float32 storage are outside the claim",
            "NumPy/SciPy/datetime functions behind the library boundary are validated models, not verified code",
            "array sizes above the stated bounds are outside the claim",
        ],
        "wall_s": round(time.time() - t0, 2),
        "violations": n_viol,
    }
    # development aid: VERIF_EVIDENCE_DIR redirects the evidence file (the registered commands do not set it)
    evidence_dir = os.environ.get("VERIF_EVIDENCE_DIR") or os.path.join(VERIF_DIR, "evidence")
    os.makedirs(evidence_dir, exist_ok=True)
    if not only:
        with open(os.path.join(evidence_dir, "%s.json" % prop), "w") as f:
            json.dump(evidence, f, indent=1, sort_keys=True)

    for sig, c in sorted(known_hit.items()):
        print("KNOWN-FINDING: property=%s %s (%s)" % (prop, open_sigs[sig].get("what", sig), sig))
    unconf = total(lambda s: len(s.unconfirmed))
    if unconf:
        print("note: %d solver counterexample(s) did not reproduce on the unmodified code and are "
              "counted as inconclusive, not reported" % unconf)
        for s in summaries:
            for c in s.unconfirmed[:3]:
                print("   unconfirmed: %s %s" % (signature(s.harness, c), json.dumps(explore._jsonable(c["inputs"]))[:300]))
    if new_violations:
        for sig, (s, c) in sorted(new_violations.items()):
            path = explore.write_replay(prop, module, tier, s.harness, c)
            print("VIOLATION property=%s replay=%s" % (prop, path))
            print("   signature: %s" % sig)
        return EXIT_VIOLATION
    if harness_errors:
        for e in harness_errors:
            print("HARNESS-ERROR: %s" % e)
        return EXIT_HARNESS
    lost = sum(v for s in summaries for k, v in s.status.items() if k not in ("ok", "exception", "infeasible"))
    print("OK property=%s tier=%s paths=%d obligations=%d discharged=%d inconclusive=%d undecided-branches=%d "
          "inconclusive-paths=%d exhaustive=%s wall=%.1fs" % (
              prop, tier, evidence["coverage"]["paths_explored"], evidence["coverage"]["obligations"],
              evidence["coverage"]["discharged"], evidence["coverage"]["inconclusive"],
              evidence["coverage"]["branch_feasibility_unknown"], lost, evidence["coverage"]["exhaustive"], evidence["wall_s"]))
    return EXIT_OK


def main(argv):
    if len(argv) >= 2 and argv[1] == "--replay":
        return explore.replay_file(argv[2])
    if len(argv) >= 2 and argv[1] == "--setup":
        load.load()
        from symx import libcheck
        errs = libcheck.run()
        for e in errs:
            print("MODEL-MISMATCH (library model): %s" % e)
        print("setup ok" if not errs else "setup failed")
        return 0 if not errs else 2
    if len(argv) < 2:
        print("usage: check <property id> [quick|thorough] | --replay <file> | --setup")
        return 2
    prop = argv[1].upper()
    tier = argv[2] if len(argv) > 2 else os.environ.get("VERIF_TIER", "quick")
    seed = int(os.environ.get("VERIF_SEED", "0") or 0)
    return run_check(prop, tier, seed)


if __name__ == "__main__":
    sys.exit(main(sys.argv))
