"""Recording stand-in for matplotlib.pyplot inside verif.output / verif.util
(DESIGN.md 2.5): the claim of C16/C17 stops at the arguments of draw calls."""
import numpy as np
import matplotlib.cm


class Calls(object):
    def __init__(self):
        self.items = []          # (target, method, args, kwargs)

    def add(self, target, method, args, kwargs):
        self.items.append((target, method, args, kwargs))

    def find(self, target=None, method=None):
        return [c for c in self.items if (target is None or c[0] == target) and (method is None or c[1] == method)]


class Label(object):
    def __init__(self, calls, name):
        self._calls, self._name = calls, name

    def set_rotation(self, v):
        self._calls.add(self._name, "set_rotation", (v,), {})

    def set_fontsize(self, v):
        self._calls.add(self._name, "set_fontsize", (v,), {})

    def __getattr__(self, name):
        def f(*a, **k):
            self._calls.add(self._name, name, a, k)
        return f


class Generic(object):
    """Any object reachable from pyplot: records every method call."""
    def __init__(self, calls, name):
        self._calls, self._name = calls, name

    def __getattr__(self, name):
        if name.startswith("__"):
            raise AttributeError(name)
        sub = Generic(self._calls, self._name + "." + name)

        def f(*a, **k):
            self._calls.add(self._name, name, a, k)
            return Generic(self._calls, self._name + "." + name + "()")
        f.__dict__["_sub"] = sub
        return _CallableOrObject(f, sub)

    def __iter__(self):
        # a returned collection (ticks, lines, spines ...): two recording members
        return iter([Generic(self._calls, self._name + "[0]"), Generic(self._calls, self._name + "[1]")])


class _CallableOrObject(object):
    def __init__(self, f, sub):
        self._f, self._sub = f, sub

    def __call__(self, *a, **k):
        return self._f(*a, **k)

    def __getattr__(self, name):
        return getattr(self._sub, name)


class Axes(Generic):
    def __init__(self, calls, name="ax"):
        Generic.__init__(self, calls, name)
        self._xlabel = ""
        self._ylabel = ""
        self._title = ""
        self._xt = [Label(calls, name + ".xticklabel0"), Label(calls, name + ".xticklabel1")]
        self._yt = [Label(calls, name + ".yticklabel0"), Label(calls, name + ".yticklabel1")]

    def get_xticklabels(self):
        return self._xt

    def get_yticklabels(self):
        return self._yt

    def get_xlabel(self):
        return self._xlabel

    def get_ylabel(self):
        return self._ylabel

    def get_title(self):
        return self._title

    def set_xlabel(self, text, **k):
        self._xlabel = text
        self._calls.add(self._name, "set_xlabel", (text,), k)

    def set_ylabel(self, text, **k):
        self._ylabel = text
        self._calls.add(self._name, "set_ylabel", (text,), k)

    def set_title(self, text, **k):
        self._title = text
        self._calls.add(self._name, "set_title", (text,), k)

    def get_position(self):
        class P(object):
            x0, y0, width, height = 0.1, 0.1, 0.8, 0.8
        return P()


class Figure(Generic):
    def __init__(self, calls):
        Generic.__init__(self, calls, "fig")

        class Canvas(object):
            manager = None
        self.canvas = Canvas()
        self._axes = []

    def get_axes(self):
        self._calls.add(self._name, "get_axes", (), {})
        return list(self._axes)


class Pyplot(object):
    """Stands in for the module matplotlib.pyplot (`mpl` in verif)."""
    cm = matplotlib.cm

    def __init__(self):
        self.calls = Calls()
        self._ax = Axes(self.calls)
        self._fig = Figure(self.calls)
        self._fig._axes = [self._ax]

    def gca(self, *a, **k):
        return self._ax

    def gcf(self):
        return self._fig

    def subplot(self, *a, **k):
        self.calls.add("mpl", "subplot", a, k)
        return self._ax

    def xlim(self, *a, **k):
        self.calls.add("mpl", "xlim", a, k)
        return (0.0, 1.0)

    def ylim(self, *a, **k):
        self.calls.add("mpl", "ylim", a, k)
        return (0.0, 1.0)

    def xticks(self, *a, **k):
        self.calls.add("mpl", "xticks", a, k)
        return (np.array([]), [])

    def yticks(self, *a, **k):
        self.calls.add("mpl", "yticks", a, k)
        return (np.array([]), [])

    def xlabel(self, text, **k):
        self._ax._xlabel = text
        self.calls.add("mpl", "xlabel", (text,), k)

    def ylabel(self, text, **k):
        self._ax._ylabel = text
        self.calls.add("mpl", "ylabel", (text,), k)

    def title(self, text, **k):
        self._ax._title = text
        self.calls.add("mpl", "title", (text,), k)

    def __getattr__(self, name):
        if name.startswith("__"):
            raise AttributeError(name)

        def f(*a, **k):
            self.calls.add("mpl", name, a, k)
            return Generic(self.calls, "mpl." + name + "()")
        return f
