"""Path manager: branch decisions, assumptions, obligations (DESIGN.md 2.4, 2.6).

One PathCtx lives for exactly one execution of a harness.  A path is identified
by its list of boolean decisions; exploring a tree = re-running the harness with
a decision prefix and letting the solver pick beyond it.  Alternatives that the
solver finds feasible are returned as pending prefixes.
"""
import time
import z3


class Unsupported(BaseException):
    """The engine cannot express this operation symbolically; the path is
    inconclusive.  BaseException so that verif's `except Exception` cannot
    swallow it."""


class Infeasible(BaseException):
    """The path condition became unsatisfiable (assumption contradicts path)."""


class PathTimeout(BaseException):
    pass


class SolverUnknown(BaseException):
    pass


class BoundExceeded(BaseException):
    """An unwinding bound stated by a harness was exceeded."""


_current = None


def current():
    return _current


def set_current(ctx):
    global _current
    _current = ctx


class Obligation(object):
    __slots__ = ("label", "status", "time", "model", "twin", "detail")

    def __init__(self, label, status, t, model=None, twin=None, detail=None):
        self.label = label
        self.status = status     # 'unsat' (holds) | 'sat' (counterexample) | 'unknown'
        self.time = t
        self.model = model       # dict name -> python value, when sat
        self.twin = twin         # None | 'sat' | 'unsat' | 'unknown'
        self.detail = detail


class PathCtx(object):
    def __init__(self, prefix=(), query_timeout_ms=10000, path_budget_s=60.0, seed=0,
                 twin_needed=None):
        self.solver = z3.Solver()
        self.solver.set("timeout", int(query_timeout_ms))
        if seed:
            self.solver.set("random_seed", int(seed) % 1000003)
        self.query_timeout_ms = query_timeout_ms
        self.prefix = list(prefix)
        self.pos = 0
        self.decisions = []
        self.pending = []
        self.pc = []
        self.model = None
        self.counter = {}
        self.inputs = {}          # name -> ('real'|'int'|'bool'|'choice', z3 vars...)
        self.input_order = []
        self.obligations = []
        self.observations = []    # (label, value)
        self.notes = []
        self.queries = 0
        self.solver_time = 0.0
        self.t0 = time.time()
        self.path_budget_s = path_budget_s
        self.realized = 0
        self.allow_realize = False
        self.message_floats = False     # float() for message formatting yields a representative value
        self.message_float_count = 0
        self.branch_unknown = 0
        self.twin_needed = twin_needed  # set of labels still lacking a sat twin, or None=all
        self.defs = 0
        self.decided = {}
        self.portfolio = {}
        self.deferred = {}
        self.facts = {}
        self.bool_facts = []
        self._const_cache = {}
        self._keep = []        # keeps decided ASTs alive so that ids are not reused
        self.witness_incomplete = False
        self.uf_used = False   # an uninterpreted function (log/exp) occurs: numeric witness values are not comparable

    # ---------------------------------------------------------------- names
    def fresh(self, stem):
        n = self.counter.get(stem, 0)
        self.counter[stem] = n + 1
        return "%s!%d" % (stem, n)

    # --------------------------------------------------------------- solver
    def _check(self, *extra):
        t = time.time()
        self.queries += 1
        try:
            r = self.solver.check(*extra)
        except z3.Z3Exception as e:  # treat solver errors as unknown
            self.notes.append("solver error: %s" % e)
            r = z3.unknown
        self.solver_time += time.time() - t
        return r

    def _ensure_model(self):
        if self.model is None:
            r = self._check()
            if r == z3.unsat:
                raise Infeasible()
            if r != z3.sat:
                # retry on a fresh non-incremental solver (other tactics apply there)
                fresh = z3.Solver()
                fresh.set("timeout", int(self.query_timeout_ms * 2))
                fresh.add(self.solver.assertions())
                t = time.time()
                self.queries += 1
                try:
                    r2 = fresh.check()
                except z3.Z3Exception:
                    r2 = z3.unknown
                self.solver_time += time.time() - t
                if r2 == z3.unsat:
                    raise Infeasible()
                if r2 != z3.sat:
                    raise SolverUnknown("path condition: %s" % self.solver.reason_unknown())
                self.model = fresh.model()
                return self.model
            self.model = self.solver.model()
        return self.model

    def add(self, cond, invalidate=True):
        self.solver.add(cond)
        self.pc.append(cond)
        if invalidate:
            self.model = None

    def define(self, cond, symbol=None):
        """A definitional axiom for a fresh symbol (total, conservative).

        With `symbol` given the axiom is *deferred*: it is a conservative
        extension (for every value of the other variables some value of the
        symbol satisfies it), so queries that do not mention the symbol are
        equisatisfiable without it.  It is activated as soon as a branch
        condition, an assumption or an obligation mentions the symbol -- this
        keeps feasibility checks linear on paths that merely compute a sqrt."""
        self.defs += 1
        if symbol is None:
            self.add(cond)
            return
        self.deferred[symbol.get_id()] = (symbol, cond)

    def _consts(self, expr):
        """ids of the uninterpreted constants occurring in expr (memoised)."""
        key = expr.get_id()
        got = self._const_cache.get(key)
        if got is not None:
            return got
        out = set()
        seen = set()
        stack = [expr]
        while stack:
            e = stack.pop()
            i = e.get_id()
            if i in seen:
                continue
            seen.add(i)
            sub = self._const_cache.get(i)
            if sub is not None:
                out |= sub
                continue
            if z3.is_app(e):
                if e.num_args() == 0:
                    if e.decl().kind() == z3.Z3_OP_UNINTERPRETED:
                        out.add(i)
                else:
                    stack.extend(e.children())
        self._const_cache[key] = out
        self._keep.append(expr)
        return out

    def activate_for(self, expr):
        """Add the deferred definitions of every symbol expr depends on."""
        if not self.deferred or isinstance(expr, bool):
            return
        todo = [expr]
        while todo:
            e = todo.pop()
            for cid in self._consts(e):
                d = self.deferred.pop(cid, None)
                if d is not None:
                    self.solver.add(d[1])
                    self.pc.append(d[1])
                    self.model = None
                    todo.append(d[1])

    def activate_all(self):
        for cid in list(self.deferred):
            sym, cond = self.deferred.pop(cid)
            self.solver.add(cond)
            self.pc.append(cond)
            self.model = None

    def assume(self, cond):
        if cond is True:
            return
        if cond is False:
            raise Infeasible()
        self.activate_for(cond)
        self.add(cond)

    # --------------------------------------------------------------- branch
    def branch(self, cond):
        """Decide a symbolic condition; returns a Python bool."""
        if time.time() - self.t0 > self.path_budget_s:
            raise PathTimeout()
        # a condition already decided on this path (hash-consed AST id) needs
        # neither a query nor a new decision
        neg = False
        base = cond
        while z3.is_not(base):
            base = base.arg(0)
            neg = not neg
        key = base.get_id()
        if key in self.decided:
            return self.decided[key] != neg
        if self.bool_facts:
            # decided boolean inputs substituted: many conditions become constants
            simp = self.simplify_under_bool_facts(base)
            if z3.is_true(simp) or z3.is_false(simp):
                val = z3.is_true(simp)
                self.decided[key] = val
                self._keep.append(base)
                return val != neg
        r = self._branch(cond)
        self.decided[key] = (r != neg)
        self._keep.append(base)
        self._learn(base, r != neg)
        return r

    def _learn(self, e, val):
        """Record the literal facts a decision implies (used to simplify the
        arguments of sqrt/cbrt symbols so that equal arguments share a symbol)."""
        k = e.get_id()
        if k in self.facts:
            return
        self.facts[k] = (e, val)
        if z3.is_const(e) and e.decl().kind() == z3.Z3_OP_UNINTERPRETED and z3.is_bool(e):
            self.bool_facts.append((e, z3.BoolVal(val)))
        if z3.is_not(e):
            self._learn(e.arg(0), not val)
        elif z3.is_and(e) and val:
            for c in e.children():
                self._learn(c, True)
        elif z3.is_or(e) and not val:
            for c in e.children():
                self._learn(c, False)

    def simplify_under_bool_facts(self, expr):
        return z3.simplify(z3.substitute(expr, *self.bool_facts))

    def simplify_under_facts(self, expr):
        if not self.facts:
            return z3.simplify(expr)
        subs = [(e, z3.BoolVal(v)) for (e, v) in self.facts.values()]
        return z3.simplify(z3.substitute(expr, *subs))

    def _branch(self, cond):
        self.activate_for(cond)
        if self.pos < len(self.prefix):
            d = self.prefix[self.pos]
            self.pos += 1
            self.solver.add(cond if d else z3.Not(cond))
            self.pc.append(cond if d else z3.Not(cond))
            self.decisions.append(d)
            self.model = None      # a model computed mid-prefix is stale now
            return d
        model = self._ensure_model()
        v = model.eval(cond, model_completion=True)
        if z3.is_true(v):
            side = True
        elif z3.is_false(v):
            side = False
        else:
            # model could not decide (e.g. division by zero term): ask
            self.solver.push()
            self.solver.add(cond)
            r = self._check()
            self.solver.pop()
            side = (r == z3.sat)
            self.model = None
        other = z3.Not(cond) if side else cond
        self.solver.push()
        self.solver.add(other)
        self.solver.set("timeout", int(min(self.query_timeout_ms, 2000)))
        r = self._check()
        self.solver.set("timeout", int(self.query_timeout_ms))
        if r == z3.unknown:
            ans = self._external(self.solver)
            r = z3.sat if ans == "sat" else (z3.unsat if ans == "unsat" else z3.unknown)
        self.solver.pop()
        if r == z3.sat:
            self.pending.append(self.decisions + [not side])
        elif r != z3.unsat:
            self.branch_unknown += 1
            self.notes.append("branch feasibility unknown at depth %d" % len(self.decisions))
        mine = cond if side else z3.Not(cond)
        self.solver.add(mine)
        self.pc.append(mine)
        self.decisions.append(side)
        if self.model is None:
            pass
        return side

    def choose(self, n, stem="choice"):
        """n-way fork on a fresh integer; returns a Python int in range(n)."""
        name = self.fresh(stem)
        v = z3.Int(name)
        self.inputs[name] = ("choice", v)
        self.input_order.append(name)
        self.add(z3.And(v >= 0, v < n))
        for i in range(n - 1):
            if self.branch(v == i):
                return i
        return n - 1

    # ----------------------------------------------------------- obligations
    def model_values(self, model):
        out = {}
        for name in self.input_order:
            spec = self.inputs[name]
            kind = spec[0]
            if kind == "real":
                nanv, val = spec[1], spec[2]
                isnan = False
                if nanv is not None:
                    isnan = z3.is_true(model.eval(nanv, model_completion=True))
                if isnan:
                    out[name] = float("nan")
                else:
                    out[name] = z3_to_py(model.eval(val, model_completion=True))
            elif kind in ("int", "choice"):
                out[name] = int(model.eval(spec[1], model_completion=True).as_long())
            elif kind == "bool":
                out[name] = z3.is_true(model.eval(spec[1], model_completion=True))
        return out

    def prove(self, label, prop, twin=None, detail=None):
        """Discharge the validity query  pc AND NOT prop.  prop / twin are z3
        Bool expressions or Python bools."""
        t = time.time()
        status = None
        model = None
        if prop is True:
            status = "unsat"
        elif prop is False:
            self._ensure_model()
            status = "sat"
            model = self.model_values(self.model)
        else:
            self.activate_for(prop)
            if twin is not None and twin is not True and twin is not False:
                self.activate_for(twin)
            self.solver.push()
            self.solver.add(z3.Not(prop))
            self.solver.set("timeout", int(min(self.query_timeout_ms, 3000)))
            r = self._check()
            self.solver.set("timeout", int(self.query_timeout_ms))
            if r == z3.sat:
                status = "sat"
                model = self.model_values(self.solver.model())
            elif r == z3.unsat:
                status = "unsat"
            else:
                status, model = self._portfolio(z3.Not(prop))
            self.solver.pop()
        twin_status = None
        if twin is not None and (self.twin_needed is None or label in self.twin_needed):
            if twin is True:
                twin_status = "unsat"
            elif twin is False:
                twin_status = "sat"
            else:
                self.solver.push()
                self.solver.add(z3.Not(twin))
                r = self._check()
                twin_status = "sat" if r == z3.sat else ("unsat" if r == z3.unsat else "unknown")
                self.solver.pop()
            if twin_status == "sat" and self.twin_needed is not None:
                self.twin_needed.discard(label)
        ob = Obligation(label, status, time.time() - t, model, twin_status, detail)
        self.obligations.append(ob)
        return ob

    def _external(self, solver_with_query):
        """Decide the assertions of a z3 Solver object with the solver binaries
        on PATH (cvc5 1.0.x, then z3 4.8.12): 'sat' | 'unsat' | 'unknown'."""
        import subprocess
        import tempfile
        import os
        text = "(set-logic ALL)\n" + solver_with_query.to_smt2()
        secs = max(5, int(self.query_timeout_ms / 1000))
        fd, path = tempfile.mkstemp(suffix=".smt2", prefix="symx-")
        answers = []
        try:
            with os.fdopen(fd, "w") as f:
                f.write(text)
            for name, cmd in (("cvc5", ["/usr/bin/cvc5", "--tlimit=%d" % (secs * 1000), path]),
                              ("z3-4.8.12", ["/usr/bin/z3", "-T:%d" % secs, path])):
                if not os.path.exists(cmd[0]):
                    continue
                t = time.time()
                try:
                    out = subprocess.run(cmd, capture_output=True, text=True, timeout=secs + 5).stdout
                except subprocess.TimeoutExpired:
                    out = ""
                self.queries += 1
                self.solver_time += time.time() - t
                lines = [l.strip() for l in out.strip().splitlines() if l.strip()]
                first = lines[0] if lines else ""
                if "(error" in out or first not in ("sat", "unsat"):
                    continue
                answers.append((name, first))
                break
        finally:
            try:
                os.unlink(path)
            except OSError:
                pass
        if answers:
            name, ans = answers[0]
            key = "%s:%s" % (name, ans)
            self.portfolio[key] = self.portfolio.get(key, 0) + 1
            return ans
        return "unknown"

    def _portfolio(self, negated):
        """The incremental solver gave up: retry the same query (a) on a fresh,
        non-incremental z3 solver, which enables tactics that push/pop disables,
        and (b) on the z3 4.8.12 binary.  `unsat` from either decides the
        obligation; `sat` counts only with a model from the in-process solver."""
        import subprocess
        import tempfile
        import os
        t = time.time()
        fresh = z3.Solver()
        fresh.set("timeout", int(self.query_timeout_ms))
        fresh.add(self.solver.assertions())
        self.queries += 1
        try:
            r = fresh.check()
        except z3.Z3Exception:
            r = z3.unknown
        self.solver_time += time.time() - t
        if r == z3.unsat:
            self.portfolio["fresh-z3:unsat"] = self.portfolio.get("fresh-z3:unsat", 0) + 1
            return "unsat", None
        if r == z3.sat:
            self.portfolio["fresh-z3:sat"] = self.portfolio.get("fresh-z3:sat", 0) + 1
            return "sat", self.model_values(fresh.model())
        ans = self._external(fresh)
        if ans == "unsat":
            return "unsat", None
        self.portfolio["unknown"] = self.portfolio.get("unknown", 0) + 1
        return "unknown", None

    def final_model(self):
        """Model of the whole path including every deferred definition (needed
        to evaluate observations); falls back to the model without them."""
        if self.deferred:
            self.solver.push()
            for cid in list(self.deferred):
                self.solver.add(self.deferred[cid][1])
            r = self._check()
            if r == z3.sat:
                self.model = self.solver.model()
                vals = self.model_values(self.model)
                self.solver.pop()
                return vals
            self.solver.pop()
            self.model = None
            self.witness_incomplete = True
        self._ensure_model()
        return self.model_values(self.model)

    # ------------------------------------------------------------- realise
    def realize_real(self, val_expr):
        """Pick the model's value for a real term and pin it (DESIGN 2.4)."""
        if not self.allow_realize:
            raise Unsupported("realisation of a symbolic number is not allowed here")
        model = self._ensure_model()
        v = model.eval(val_expr, model_completion=True)
        self.solver.add(val_expr == v)
        self.pc.append(val_expr == v)
        self.realized += 1
        return z3_to_py(v)


def z3_to_py(v):
    """z3 numeral -> Python int/float (nearest double)."""
    if z3.is_int_value(v):
        return int(v.as_long())
    if z3.is_rational_value(v):
        num = v.numerator_as_long()
        den = v.denominator_as_long()
        if den == 1:
            return float(num)
        return num / den
    if z3.is_algebraic_value(v):
        return float(v.approx(20).as_fraction())
    if z3.is_true(v):
        return True
    if z3.is_false(v):
        return False
    raise Unsupported("cannot concretise %s" % v)
