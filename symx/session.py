"""Dual-mode harness API.

A harness is an ordinary function `fn(S)`.  Under SymSession it builds symbolic
inputs, the real verif code runs on them, and `S.prove` discharges validity
queries.  Under ConcSession the same function runs on the concrete values of a
solver model against the *unmodified* code with the real libraries -- this is
the witness replay of every path and the replay of every counterexample
(DESIGN.md 2.8, 2.9).
"""
import math
import warnings
import numpy as np
import z3

from . import core
from . import values as V
from .arrays import SymArray, sa, to_obj, unwrap
from .values import SymFloat, SymInt, SymBool, is_sym

RTOL = 1e-9
ATOL = 1e-9


class Violation(Exception):
    pass


class _Base(object):
    # ----- generic combinators (work on Sym* and on concrete values)
    def isnan(self, x):
        if is_sym(x):
            return V.v_isnan(x)
        if x is np.ma.masked:
            return True
        try:
            return bool(np.isnan(x))
        except TypeError:
            return False

    def isinf(self, x):
        if is_sym(x):
            return V.v_isinf(x)
        return bool(np.isinf(x))

    def isfinite(self, x):
        if is_sym(x):
            return V.v_isfinite(x)
        return bool(np.isfinite(x))

    def and_(self, *xs):
        r = True
        for x in xs:
            r = V.mkbool(V.b_and(V.unbool(r), V.unbool(x)))
        return r

    def or_(self, *xs):
        r = False
        for x in xs:
            r = V.mkbool(V.b_or(V.unbool(r), V.unbool(x)))
        return r

    def not_(self, x):
        return V.mkbool(V.b_not(V.unbool(x)))

    def implies(self, a, b):
        return self.or_(self.not_(a), b)

    def iff(self, a, b):
        return self.and_(self.implies(a, b), self.implies(b, a))

    def ite(self, c, a, b):
        if isinstance(c, SymBool):
            return V.v_ite(c.e, a, b)
        return a if c else b

    def all(self, xs):
        return self.and_(*list(xs))

    def any(self, xs):
        return self.or_(*list(xs))

    def count(self, xs):
        """Number of true conditions (symbolic int or Python int)."""
        n = 0
        for x in xs:
            n = n + self.ite(x, 1, 0) if isinstance(x, SymBool) else n + int(bool(x))
        return n

    def same_arrays(self, a, b):
        a = to_obj(a) if not self.symbolic else to_obj(a)
        b = to_obj(b)
        if a.shape != b.shape:
            return False
        return self.all(self.same(x, y) for x, y in zip(a.reshape(-1), b.reshape(-1)))

    def elements(self, a):
        """Flat Python list of an array's elements."""
        if isinstance(a, np.ma.MaskedArray):
            a = np.ma.filled(a.astype(float), np.nan)
        return list(to_obj(a).reshape(-1))

    def sqrt(self, x):
        if is_sym(x) or self.symbolic:
            return V.v_sqrt(x)     # exact (rational or algebraic) also for constants
        with np.errstate(all="ignore"):
            return float(np.sqrt(np.float64(x)))

    def abs(self, x):
        if is_sym(x):
            return V.v_abs(x)
        return abs(x)

    def div(self, a, b):
        """NumPy-style division (x/0 = +-inf or NaN)."""
        if is_sym(a) or is_sym(b):
            return V.v_div(V.lift(a), V.lift(b))
        with np.errstate(all="ignore"):
            return float(np.float64(a) / np.float64(b))

    def log(self, x, base=None):
        if is_sym(x):
            return V.v_log(x, base)
        with np.errstate(all="ignore"):
            if base == 2:
                return float(np.log2(np.float64(x)))
            return float(np.log(np.float64(x)))

    def sum(self, xs):
        r = 0.0
        for x in xs:
            r = r + x
        return r

    def min2(self, a, b):
        return self.ite(a <= b, a, b)

    def max2(self, a, b):
        return self.ite(a >= b, a, b)


class SymSession(_Base):
    symbolic = True

    def __init__(self, ctx):
        self.ctx = ctx

    # ----- inputs
    def real(self, name, nan=False, lo=None, hi=None, nan_from=None):
        """nan_from: share the missing-flag of another input (same missingness
        pattern, independent value)."""
        v = z3.Real(name)
        if nan_from is not None:
            nv = z3.Bool(nan_from + "?")
            nan = True
        else:
            nv = z3.Bool(name + "?") if nan else None
        self.ctx.inputs[name] = ("real", nv, v)
        self.ctx.input_order.append(name)
        if lo is not None:
            self.ctx.assume(v >= V.real_const(lo))
        if hi is not None:
            self.ctx.assume(v <= V.real_const(hi))
        if nan:
            # canonical value under NaN keeps models small
            self.ctx.assume(z3.Implies(nv, v == 0))
        return SymFloat(v, nv if nan else False)

    def integer(self, name, lo=None, hi=None):
        v = z3.Int(name)
        self.ctx.inputs[name] = ("int", v)
        self.ctx.input_order.append(name)
        if lo is not None:
            self.ctx.assume(v >= lo)
        if hi is not None:
            self.ctx.assume(v <= hi)
        return SymInt(v)

    def boolean(self, name):
        v = z3.Bool(name)
        self.ctx.inputs[name] = ("bool", v)
        self.ctx.input_order.append(name)
        return SymBool(v)

    def token(self, name, can_be_bad=False, integer=False, nan=False):
        """A numeral in a text source: (token, value, bad flag)."""
        v = self.integer(name) if integer else self.real(name, nan=nan)
        bad = self.boolean(name + ".bad") if can_be_bad else False
        return V.Token("0", v, bad), v, bad      # the text is a placeholder numeral

    def choose(self, name, n):
        return self.ctx.choose(n, name)

    def token_decimal(self, name, lo, hi, scale=1000):
        """A decimal numeral with at most log10(scale) decimals: (token, value)."""
        k = self.integer(name, lo=int(lo * scale), hi=int(hi * scale))
        v = SymFloat(z3.ToReal(k.e) / scale)
        return V.Token("0", v, False), v      # the text is a placeholder numeral

    def arg(self, parts):
        """A command-line argument made of tokens and separator strings."""
        return V.SymArg(parts)

    def array(self, name, shape, nan=True, lo=None, hi=None):
        if isinstance(shape, int):
            shape = (shape,)
        out = np.empty(shape, dtype=object)
        for idx in np.ndindex(*shape):
            out[idx] = self.real("%s[%s]" % (name, ",".join(str(i) for i in idx)), nan=nan, lo=lo, hi=hi)
        return out.view(SymArray)

    def const(self, x):
        """A concrete array in the representation of the current mode."""
        return sa(np.asarray(x, dtype=float))

    def vector(self, xs):
        """Array built from scalars that may be symbolic."""
        return sa(list(xs))

    def masked_parts(self, r):
        """(data list, mask list) of a masked-array result."""
        data = list(to_obj(r).reshape(-1))
        if isinstance(r, SymArray) and r._mask is not None:
            mask = list(to_obj(r._mask).reshape(-1))
        elif isinstance(r, np.ma.MaskedArray):
            mask = list(np.ma.getmaskarray(r).reshape(-1))
        else:
            mask = [False] * len(data)
        return data, mask

    def assume(self, cond):
        self.ctx.assume(V.unbool(cond))

    # ----- oracles
    def same(self, a, b):
        """Both NaN, or numerically equal (exact over the reals)."""
        if a is np.ma.masked:
            a = float("nan")
        if b is np.ma.masked:
            b = float("nan")
        x, y = V.lift(unwrap(a)), V.lift(unwrap(b))
        if x is None or y is None:
            return a == b
        return V.mkbool(V.e_same(x, y))

    def eq(self, a, b):
        return a == b

    def close(self, a, b, tol=1e-9):
        """|a - b| <= tol * (1 + |b|), or both NaN.  For obligations whose two
        sides are computed from *concrete* doubles on a path (rounding differs
        between the code's and the oracle's order of operations)."""
        x, y = V.lift(unwrap(a)), V.lift(unwrap(b))
        d = V.v_abs(V.v_sub(x, y))
        bound = V.v_mul(V.lift(tol), V.v_add(V.lift(1.0), V.v_abs(y)))
        return V.mkbool(V.b_or(V.b_and(x.nan, y.nan), V.e_le(d, bound)))

    def prove(self, label, cond, twin=None, detail=None):
        c = V.unbool(cond)
        t = None if twin is None else V.unbool(twin)
        return self.ctx.prove(label, c, t, detail)

    def prove_same(self, label, got, expected, detail=None):
        """got == expected (NaN-aware); the twin 'got == expected + 1' must be
        refutable somewhere, else the harness is vacuous."""
        twin = self.same(got, expected + 1)
        return self.prove(label, self.same(got, expected), twin=twin, detail=detail)

    def observe(self, label, value):
        self.ctx.observations.append((label, value))

    def allow_realize(self, flag=True):
        self.ctx.allow_realize = flag

    def constants_as_doubles(self, flag=True):
        """log / exp of *concrete* numbers inside the code are computed by NumPy (doubles) instead of being kept
        as exact terms: for harnesses that only ask whether a run crashes, on data that are concrete."""
        self.ctx.exact_constant_functions = not flag

    def messages_may_format_numbers(self, flag=True):
        """The code under test formats numbers into warning texts; those
        strings are not observed (see SymFloat.__float__)."""
        self.ctx.message_floats = flag

    def note(self, text):
        self.ctx.notes.append(text)


class ConcSession(_Base):
    symbolic = False

    def __init__(self, inputs, rtol=None):
        self.rtol = RTOL if rtol is None else rtol
        self.atol = ATOL if rtol is None else max(ATOL, rtol)
        self.inputs = inputs
        self.results = []        # (label, bool, detail)
        self.observations = []
        self.notes = []
        self.counter = {}

    def _get(self, name):
        if name not in self.inputs:
            raise KeyError("replay input %r missing" % name)
        return self.inputs[name]

    def real(self, name, nan=False, lo=None, hi=None, nan_from=None):
        return np.float64(self._get(name))

    def integer(self, name, lo=None, hi=None):
        return int(self._get(name))

    def boolean(self, name):
        return bool(self._get(name))

    def token(self, name, can_be_bad=False, integer=False, nan=False):
        bad = bool(self._get(name + ".bad")) if can_be_bad else False
        v = self._get(name)
        if integer:
            v = int(v)
            text = "%d" % v
        else:
            v = np.float64(v)
            text = "nan" if np.isnan(v) else repr(float(v))
        if bad:
            text = "n/a"
        return text, v, bad

    def choose(self, name, n):
        k = self.counter.get(name, 0)
        self.counter[name] = k + 1
        return int(self._get("%s!%d" % (name, k)))

    def token_decimal(self, name, lo, hi, scale=1000):
        k = int(self._get(name))
        v = k / float(scale)
        return ("%d" % (k // scale)) if k % scale == 0 else repr(v), np.float64(v)

    def arg(self, parts):
        return "".join(str(p) for p in parts)

    def array(self, name, shape, nan=True, lo=None, hi=None):
        if isinstance(shape, int):
            shape = (shape,)
        out = np.zeros(shape, dtype=float)
        for idx in np.ndindex(*shape):
            out[idx] = self._get("%s[%s]" % (name, ",".join(str(i) for i in idx)))
        return out

    def const(self, x):
        return np.asarray(x, dtype=float)

    def vector(self, xs):
        return np.array([float(x) for x in xs], dtype=float)

    def masked_parts(self, r):
        if isinstance(r, np.ma.MaskedArray):
            return list(np.ma.getdata(r).reshape(-1)), [bool(m) for m in np.ma.getmaskarray(r).reshape(-1)]
        data = list(np.asarray(r).reshape(-1))
        return data, [False] * len(data)

    def assume(self, cond):
        if not bool(cond):
            self.notes.append("assumption not met by concrete inputs")

    def same(self, a, b):
        if a is np.ma.masked:
            a = float("nan")
        if b is np.ma.masked:
            b = float("nan")
        try:
            a = float(a)
            b = float(b)
        except (TypeError, ValueError):
            return a == b
        if math.isnan(a) or math.isnan(b):
            return math.isnan(a) and math.isnan(b)
        if math.isinf(a) or math.isinf(b):
            return a == b
        return abs(a - b) <= self.atol + self.rtol * max(abs(a), abs(b))

    def eq(self, a, b):
        return self.same(a, b)

    def close(self, a, b, tol=1e-9):
        a, b = float(a), float(b)
        if math.isnan(a) or math.isnan(b):
            return math.isnan(a) and math.isnan(b)
        return abs(a - b) <= max(tol, 1e-7) * (1 + abs(b))

    def prove(self, label, cond, twin=None, detail=None):
        self.results.append((label, bool(cond), detail))

    def prove_same(self, label, got, expected, detail=None):
        self.prove(label, self.same(got, expected), detail=detail)

    def observe(self, label, value):
        self.observations.append((label, value))

    def allow_realize(self, flag=True):
        pass

    def constants_as_doubles(self, flag=True):
        pass

    def messages_may_format_numbers(self, flag=True):
        pass

    def note(self, text):
        self.notes.append(text)


def eval_under(model, x):
    """Value of a symbolic observation under a z3 model -> Python."""
    if isinstance(x, SymFloat):
        def flag(f):
            if f is True or f is False:
                return f
            return z3.is_true(model.eval(f, model_completion=True))
        if flag(x.nan):
            return float("nan")
        if flag(x.pinf):
            return math.inf
        if flag(x.ninf):
            return -math.inf
        return float(core.z3_to_py(model.eval(x.val, model_completion=True)))
    if isinstance(x, SymInt):
        return int(model.eval(x.e, model_completion=True).as_long())
    if isinstance(x, SymBool):
        return z3.is_true(model.eval(x.e, model_completion=True))
    if x is np.ma.masked:
        return float("nan")
    if isinstance(x, np.ndarray):
        return [eval_under(model, e) for e in to_obj(x).reshape(-1)]
    if isinstance(x, (list, tuple)):
        return [eval_under(model, e) for e in x]
    if isinstance(x, np.generic):
        return x.item()
    return x


def plain(x):
    """Concrete observation -> plain Python (for comparison / JSON)."""
    if x is np.ma.masked:
        return float("nan")
    if isinstance(x, np.ma.MaskedArray):
        x = np.ma.filled(x.astype(float), np.nan)
    if isinstance(x, np.ndarray):
        return [plain(e) for e in x.reshape(-1).tolist()]
    if isinstance(x, (list, tuple)):
        return [plain(e) for e in x]
    if isinstance(x, np.generic):
        return x.item()
    return x


def obs_equal(a, b, tol=1e-7):
    if isinstance(a, list) and isinstance(b, list):
        return len(a) == len(b) and all(obs_equal(x, y, tol) for x, y in zip(a, b))
    if isinstance(a, (bool, str)) or isinstance(b, (bool, str)) or a is None or b is None:
        if isinstance(a, bool) or isinstance(b, bool):
            try:
                return bool(a) == bool(b)
            except Exception:
                return False
        return a == b
    try:
        fa, fb = float(a), float(b)
    except (TypeError, ValueError):
        return a == b
    if math.isnan(fa) or math.isnan(fb):
        return math.isnan(fa) and math.isnan(fb)
    if math.isinf(fa) or math.isinf(fb):
        return fa == fb
    return abs(fa - fb) <= tol + tol * max(abs(fa), abs(fb))
