"""Library-model differential suite (DESIGN.md 2.8.2).

Every NumPy model in symx.arrays is run on a fixed corpus with *constant*
symbolic values and compared with the real function.  Run by every check."""
import math
import warnings
import numpy as np
import z3

from . import core
from . import values as V
from .arrays import sa, to_obj, SymArray
from . import arrays as A

NAN = float("nan")
INF = float("inf")

VECTORS = [
    [1.0], [1.0, 2.0, 3.0], [3.0, 1.0, 2.0], [1.0, 1.0, 2.0], [2.0, 2.0, 2.0, 2.0],
    [NAN, 1.0], [1.0, NAN, 3.0], [NAN, NAN], [INF, 1.0], [-INF, 1.0, NAN], [0.0, 0.0],
    [0.5, 0.25, 0.75, 1.0], [-1.5, 2.25, 0.0, -3.0, 7.0], [0.1, 0.2, 0.3], [5.0, 4.0, 3.0, 2.0, 1.0],
    [0.0, 1.0, 0.05, 0.95, 0.5, 0.1, 1.0],
]
MATRICES = [
    [[1.0, 2.0], [3.0, 4.0]], [[1.0, NAN], [3.0, 4.0]], [[[1.0, 2.0], [0.5, 4.0]], [[-1.0, 2.0], [3.0, 3.0]]],
]


def lift_array(x):
    arr = np.asarray(x, dtype=float)
    out = np.empty(arr.shape, dtype=object)
    for idx in np.ndindex(*arr.shape):
        out[idx] = V.lift(float(arr[idx]))
    return out.view(SymArray)


def conc(x):
    if isinstance(x, (V.SymFloat, V.SymInt, V.SymBool)):
        from .session import eval_under
        core.current().activate_all()
        return eval_under(core.current()._ensure_model(), x)
    if x is np.ma.masked:
        return NAN
    if isinstance(x, np.ndarray):
        o = to_obj(x)
        out = np.empty(o.shape, dtype=float)
        for idx in np.ndindex(*o.shape):
            out[idx] = conc(o[idx])
        return out
    if isinstance(x, (tuple, list)):
        return [conc(e) for e in x]
    if isinstance(x, np.generic):
        return x.item()
    return x


def close(a, b):
  with np.errstate(all='ignore'):
   return _close(a, b)


def _close(a, b):
    a = np.asarray(a, dtype=float)
    b = np.asarray(b, dtype=float)
    if a.shape != b.shape:
        return False
    return bool(np.all((np.isnan(a) & np.isnan(b)) | (a == b) | (np.abs(a - b) <= 1e-9 + 1e-9 * np.abs(b))))


def run():
    errors = []
    ctx = core.PathCtx()
    core.set_current(ctx)

    def cmp(name, sym_fn, real_fn, *args):
        try:
            with warnings.catch_warnings():
                warnings.simplefilter("ignore")
                with np.errstate(all="ignore"):
                    try:
                        expected = real_fn(*args)
                        exp_exc = None
                    except Exception as e:
                        expected, exp_exc = None, type(e).__name__
                    try:
                        got = conc(sym_fn(*[lift_array(a) if isinstance(a, list) else a for a in args]))
                        got_exc = None
                    except Exception as e:
                        got, got_exc = None, type(e).__name__
            if exp_exc or got_exc:
                if exp_exc != got_exc:
                    errors.append("%s%r: real raised %s, model raised %s" % (name, args, exp_exc, got_exc))
                return
            if isinstance(expected, np.ma.MaskedArray) or expected is np.ma.masked:
                expected = np.ma.filled(np.ma.asarray(expected).astype(float), np.nan)
            if not close(got, expected):
                errors.append("%s%r: real %r, model %r" % (name, args, expected, got))
        except core.Unsupported as e:
            errors.append("%s%r: unsupported %s" % (name, args, e))

    try:
        for v in VECTORS:
            for name in ("sum", "mean", "nansum", "nanmean", "min", "max", "nanmin", "nanmax", "std", "var",
                         "median", "cumsum", "nancumsum", "sort", "argsort", "unique", "nan_to_num"):
                real = getattr(np, name)
                if name == "argsort" and len(set(x for x in v if x == x)) != len([x for x in v if x == x]):
                    continue      # tie order of np.argsort is unspecified (every order is explored by the model)
                cmp(name, real, real, v)
            finite = not any(math.isinf(e) for e in v)
            for q in (0, 25, 50, 75, 90, 100) if finite else ():
                cmp("percentile", np.percentile, np.percentile, v, q)
            for q in (0, 0.1, 0.5, 0.9, 1) if finite else ():
                cmp("quantile_nu", lambda a, qq: np.quantile(a, qq, method="normal_unbiased"),
                    lambda a, qq: np.quantile(a, qq, method="normal_unbiased"), v, q)
            cmp("histogram", lambda a: np.histogram(a, np.linspace(0, 1, 11))[0],
                lambda a: np.histogram(a, np.linspace(0, 1, 11))[0], v)
            cmp("isnan", np.isnan, np.isnan, v)
            cmp("isinf", np.isinf, np.isinf, v)
            cmp("abs", np.abs, np.abs, v)
            cmp("any", lambda a: np.any(np.asarray(a) > 1) if not isinstance(a, SymArray) else np.any(a > 1),
                lambda a: np.any(np.asarray(a) > 1), v)
            cmp("where3", lambda a: np.where(a > 1, a, 0.0) if isinstance(a, SymArray) else None,
                lambda a: np.where(np.asarray(a) > 1, np.asarray(a), 0.0), v)
            cmp("div0", lambda a: a / (a - 1.0) if isinstance(a, SymArray) else None,
                lambda a: np.asarray(a) / (np.asarray(a) - 1.0), v)
            cmp("sqrt", np.sqrt, np.sqrt, v)
        cmp("percentile(empty)", np.percentile, np.percentile, [], 50)
        cmp("quantile_nu(empty)", lambda a, qq: np.quantile(a, qq, method="normal_unbiased"),
            lambda a, qq: np.quantile(a, qq, method="normal_unbiased"), [], 0.5)
        for a in VECTORS:
            for b in VECTORS[:8]:
                cmp("intersect1d", np.intersect1d, np.intersect1d, a, b)
                cmp("isin", np.isin, np.isin, a, b)
                if len(a) == len(b):
                    cmp("corrcoef", lambda x, y: np.corrcoef(x, y)[1, 0], lambda x, y: np.corrcoef(x, y)[1, 0], a, b)
                    if len(a) >= 2:
                        cmp("cov", lambda x, y: np.cov(x, y)[0, 1], lambda x, y: np.cov(x, y)[0, 1], a, b)
                    cmp("isclose", np.isclose, np.isclose, a, b)
                    cmp("minimum", np.minimum, np.minimum, a, b)
                    cmp("fmax", np.fmax, np.fmax, a, b)
                    cmp("mul", np.multiply, np.multiply, a, b)
                    cmp("div", np.true_divide, np.true_divide, a, b)
                    cmp("sub", np.subtract, np.subtract, a, b)
                    cmp("lt", np.less, np.less, a, b)
                    cmp("le", np.less_equal, np.less_equal, a, b)
                    cmp("eq", np.equal, np.equal, a, b)
        for m in MATRICES:
            nd = np.asarray(m).ndim
            for ax in [None] + list(range(nd)):
                for name in ("sum", "mean", "min", "max", "std", "var", "median", "nanmean", "cumsum"):
                    real = getattr(np, name)
                    cmp(name + "(axis)", lambda a, ax=ax, real=real: real(a, axis=ax),
                        lambda a, ax=ax, real=real: real(np.asarray(a), axis=ax), m)
                cmp("percentile(axis)", lambda a, ax=ax: np.percentile(a, 75, axis=ax),
                    lambda a, ax=ax: np.percentile(np.asarray(a), 75, axis=ax), m)
                cmp("quantile_nu(axis)", lambda a, ax=ax: np.quantile(a, 0.3, axis=ax, method="normal_unbiased"),
                    lambda a, ax=ax: np.quantile(np.asarray(a), 0.3, axis=ax, method="normal_unbiased"), m)
        import scipy.stats
        for a in VECTORS:
            for b in VECTORS:
                if len(a) == len(b) and 2 <= len(a) <= 5 and not any(math.isinf(v) for v in a + b):
                    cmp("spearmanr", lambda x, y: A.m_spearmanr(x, y)[0], lambda x, y: scipy.stats.spearmanr(x, y)[0], a, b)
                    cmp("kendalltau", lambda x, y: A.m_kendalltau(x, y)[0], lambda x, y: scipy.stats.kendalltau(x, y)[0], a, b)
        # searchsorted (insertion index as a count)
        for v in VECTORS:
            if any(x != x for x in v) or not v:
                continue
            for side in ("left", "right"):
                cmp("searchsorted-" + side, lambda a, side=side: np.searchsorted(np.sort(a), a, side=side),
                    lambda a, side=side: np.searchsorted(np.sort(np.asarray(a, dtype=float)), np.asarray(a, dtype=float), side=side), v)
        # masked arrays
        for v, mask in (([1.0, 0.0, 1.0], [False, False, True]), ([1.0, 1.0], [True, True]),
                        ([0.0, 1.0, 1.0, 0.0], [False, True, False, False])):
            def sym_ma(a, mask=mask):
                mm = A.ma_make(a != 0, sa(np.array(mask, dtype=object)))
                return [A.ma_sum(mm), A.ma_sum(mm & (mm == 0)), A.ma_sum(mm == 0), A.ma_mean(mm), np.nanmean(mm)]

            def real_ma(a, mask=mask):
                mm = np.ma.masked_array(np.asarray(a) != 0, mask=mask)
                vals = [np.ma.sum(mm), np.ma.sum(mm & (mm == 0)), np.ma.sum(mm == 0), np.mean(mm), np.nanmean(mm)]
                return [NAN if x is np.ma.masked else float(x) for x in vals]
            cmp("masked", sym_ma, real_ma, v)

            def sym_fill(a, mask=mask):
                fm = A.ma_make(a, sa(np.array(mask, dtype=object)))
                bm = A.ma_make(a != 0, sa(np.array(mask, dtype=object)))
                return [list(conc(A.ma_filled(fm))), list(conc(A.ma_filled(fm, -999))), [float(x) for x in conc(A.ma_filled(bm))]]

            def real_fill(a, mask=mask):
                fm = np.ma.masked_array(np.asarray(a, dtype=float), mask=mask)
                bm = np.ma.masked_array(np.asarray(a) != 0, mask=mask)
                return [list(np.ma.filled(fm)), list(np.ma.filled(fm, -999)), [float(x) for x in np.ma.filled(bm)]]
            cmp("masked-filled", sym_fill, real_fill, v)
    finally:
        core.set_current(None)
    return errors
