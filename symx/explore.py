"""Exploration driver: runs harnesses path by path (re-execution), in parallel,
replays witnesses and counterexamples on the unmodified code, and summarises
(DESIGN.md 2.4, 2.8, 2.9)."""
import concurrent.futures as cf
import contextlib
import hashlib
import importlib
import io
import json
import multiprocessing
import os
import sys
import time
import traceback
import warnings

import numpy as np
import z3

from . import core, load
from . import arrays
from .core import PathCtx, Unsupported, Infeasible, PathTimeout, SolverUnknown, BoundExceeded
from .session import SymSession, ConcSession, eval_under, plain, obs_equal

VERIF_DIR = os.path.dirname(os.path.dirname(os.path.abspath(__file__)))
REPLAY_DIR = os.path.join(VERIF_DIR, "replays")


class Harness(object):
    def __init__(self, name, fn, doc="", allow_exit=True, witness=True, max_paths=None,
                 query_timeout_ms=None, path_budget_s=None, anchors=(), rtol=None):
        self.rtol = rtol            # tolerance of the concrete replay (e.g. code that stores float32)
        self.name = name
        self.fn = fn
        self.doc = doc
        self.witness = witness
        self.max_paths = max_paths
        self.query_timeout_ms = query_timeout_ms
        self.path_budget_s = path_budget_s
        self.anchors = anchors      # (file, first, last) ranges this harness must reach
        self.module = None
        self.tier = None


class Opts(object):
    def __init__(self, tier="quick", seed=0, jobs=None):
        self.tier = tier
        self.seed = seed
        self.jobs = jobs or min(16, os.cpu_count() or 1)
        self.query_timeout_ms = 10000 if tier == "quick" else 60000
        self.path_budget_s = 30.0 if tier == "quick" else 120.0
        self.chunk_paths = 40
        self.chunk_seconds = 3.0
        self.max_paths = 20000 if tier == "quick" else 400000
        self.wall_budget_s = 300.0 if tier == "quick" else 1500.0


# ------------------------------------------------------------------ monitoring
_MON = {"on": False, "funcs": {}, "lines": set()}


def _start_monitoring():
    if _MON["on"]:
        return
    mon = sys.monitoring
    tool = mon.COVERAGE_ID
    try:
        mon.use_tool_id(tool, "symx")
    except ValueError:
        return
    root = os.path.realpath(load.REPO) + os.sep

    def on_start(code, offset):
        fn = code.co_filename
        if fn.startswith(root) and "/tests/" not in fn:
            _MON["funcs"][(fn, code.co_qualname, code.co_firstlineno)] = True
        return mon.DISABLE

    def on_line(code, line):
        fn = code.co_filename
        if fn.startswith(root) and "/tests/" not in fn:
            _MON["lines"].add((fn, line))
        return mon.DISABLE

    mon.register_callback(tool, mon.events.PY_START, on_start)
    mon.register_callback(tool, mon.events.LINE, on_line)
    mon.set_events(tool, mon.events.PY_START | mon.events.LINE)
    _MON["on"] = True


# --------------------------------------------------------------- one execution
def _harness_table(module, tier):
    mod = importlib.import_module(module)
    table = {}
    for h in mod.harnesses(tier):
        h.module = module
        h.tier = tier
        table[h.name] = h
    return table


_TABLES = {}
_TWINS = {}


def get_harness(module, tier, name):
    key = (module, tier)
    if key not in _TABLES:
        _TABLES[key] = _harness_table(module, tier)
    return _TABLES[key][name]


@contextlib.contextmanager
def _quiet():
    old = sys.stdout
    sys.stdout = io.StringIO()
    try:
        with warnings.catch_warnings():
            warnings.simplefilter("ignore")
            with np.errstate(all="ignore"):
                yield
    finally:
        sys.stdout = old


def _where(tb):
    """innermost frame inside the repository"""
    root = os.path.realpath(load.REPO) + os.sep
    where = None
    for fs in traceback.extract_tb(tb):
        if os.path.realpath(fs.filename).startswith(root):
            where = "%s:%s" % (os.path.relpath(fs.filename, root), fs.name)
    return where


def run_concrete(h, inputs):
    """The harness on concrete inputs against the unmodified code."""
    was = load.is_bound()
    load.unbind()
    prev = core.current()
    core.set_current(None)
    S = ConcSession(inputs, rtol=h.rtol)
    exc = None
    try:
        with _quiet():
            h.fn(S)
    except SystemExit as e:
        exc = ("SystemExit", str(e.code), None)
    except Exception as e:
        exc = (type(e).__name__, str(e)[:200], _where(e.__traceback__))
    finally:
        core.set_current(prev)
        if was:
            load.bind()
    return S, exc


def _nice_model(ctx, extra=None):
    """A model whose real inputs are small dyadic rationals (exactly
    representable as doubles), if one exists: (input values, observations)."""
    s = ctx.solver
    s.push()
    try:
        if extra is not None:
            s.add(extra)
        for cid in list(ctx.deferred):
            s.add(ctx.deferred[cid][1])        # definitions of sqrt / cbrt symbols: the observations mention them
        for name in ctx.input_order:
            spec = ctx.inputs[name]
            if spec[0] == "real":
                k = z3.Int("nice!" + name)
                s.add(spec[2] * 64 == z3.ToReal(k), k >= -6400000, k <= 6400000)
        r = s.check()
        if r == z3.sat:
            m = s.model()
            return ctx.model_values(m), [(l, plain(eval_under(m, v))) for (l, v) in ctx.observations]
        return None, None
    finally:
        s.pop()


# Watchdog: a solver call that does not honour its own timeout (seen once: a worker of C05 spent 16 CPU-minutes in
# one call while the machine was overloaded) is interrupted from a second thread (Z3_interrupt); the call then gives
# up, which the engine counts as `unknown` / a lost path -- inconclusive, never a verdict.
_WATCH = {"t0": None, "limit": None, "thread": None, "fired": 0}


def _watchdog_loop():
    import z3
    while True:
        time.sleep(1.0)
        t0, limit = _WATCH["t0"], _WATCH["limit"]
        if t0 is not None and time.time() - t0 > limit:
            _WATCH["fired"] += 1
            try:
                z3.main_ctx().interrupt()
            except Exception:
                pass
            _WATCH["t0"] = time.time()      # give the path time to unwind; interrupt again if it is still stuck


def _watch(limit):
    import threading
    if _WATCH["thread"] is None or _WATCH.get("pid") != os.getpid():
        th = threading.Thread(target=_watchdog_loop, daemon=True)
        _WATCH["thread"], _WATCH["pid"] = th, os.getpid()
        th.start()
    _WATCH["limit"] = limit
    _WATCH["t0"] = time.time() if limit is not None else None


def run_one(h, prefix, opts):
    _watch(2.0 * (h.path_budget_s or opts.path_budget_s) + 2.0 * (h.query_timeout_ms or opts.query_timeout_ms) / 1000.0 + 30.0)
    try:
        return _run_one(h, prefix, opts)
    finally:
        _watch(None)


def _run_one(h, prefix, opts):
    load.unbind()     # drops stubs a previous path may have installed
    load.bind()
    key = (h.module, h.tier, h.name)
    twins = _TWINS.setdefault(key, None)
    ctx = PathCtx(prefix, h.query_timeout_ms or opts.query_timeout_ms,
                  h.path_budget_s or opts.path_budget_s, opts.seed)
    ctx.twin_needed = None
    core.set_current(ctx)
    S = SymSession(ctx)
    rec = {"status": "ok", "msg": None}
    exc_info = None
    t0 = time.time()
    try:
        with _quiet():
            h.fn(S)
    except Unsupported as e:
        rec["status"], rec["msg"] = "unsupported", str(e)[:300]
    except Infeasible:
        rec["status"] = "infeasible"
    except PathTimeout:
        rec["status"] = "timeout"
    except SolverUnknown as e:
        rec["status"], rec["msg"] = "unknown", str(e)[:200]
    except BoundExceeded as e:
        rec["status"], rec["msg"] = "bound", str(e)[:200]
    except SystemExit as e:
        rec["status"] = "exception"
        exc_info = ("SystemExit", str(e.code), None)
    except RecursionError as e:
        rec["status"], rec["msg"] = "unsupported", "recursion"
    except Exception as e:
        rec["status"] = "exception"
        exc_info = (type(e).__name__, str(e)[:200], _where(e.__traceback__))
        rec["trace"] = traceback.format_exc()[-1500:]
    finally:
        core.set_current(None)

    final = None
    if rec["status"] in ("ok", "exception"):
        try:
            final = ctx.final_model()
        except Infeasible:
            rec["status"] = "infeasible"
        except SolverUnknown as e:
            rec["status"], rec["msg"] = "unknown", str(e)[:200]

    obligations = []
    cex = []
    for ob in ctx.obligations:
        obligations.append((ob.label, ob.status, round(ob.time, 4), ob.twin))
        if ob.status == "sat":
            cex.append({"label": ob.label, "inputs": ob.model, "detail": ob.detail, "kind": "oracle"})
    if rec["status"] == "exception" and final is not None:
        label = "no-unexpected-exception"
        obligations.append((label, "sat", 0.0, None))
        cex.append({"label": label, "inputs": final, "kind": "exception", "exc": exc_info,
                    "detail": "%s@%s" % (exc_info[0], exc_info[2])})
    elif rec["status"] == "ok":
        obligations.append(("no-unexpected-exception", "unsat", 0.0, None))

    # ---- witness replay on the unmodified code (every feasible completed path)
    witness = None
    if final is not None and h.witness and rec["status"] == "ok" and ctx.witness_incomplete:
        witness = {"ok": None, "nice": False}
    elif final is not None and h.witness and rec["status"] == "ok":
        model = ctx.model
        sym_obs = [(l, plain(eval_under(model, v))) for (l, v) in ctx.observations]
        CS, cexc = run_concrete(h, final)
        conc_obs = [(l, plain(v)) for (l, v) in CS.observations]
        if ctx.uf_used:
            # log/exp are uninterpreted in the model: only the structure and the
            # proven obligations are compared, not numeric values
            ok = cexc is None and [a[0] for a in sym_obs] == [b[0] for b in conc_obs]
        else:
            ok = (cexc is None and len(sym_obs) == len(conc_obs)
                  and all(a[0] == b[0] and obs_equal(a[1], b[1], h.rtol or 1e-7) for a, b in zip(sym_obs, conc_obs)))
        proved = set(l for (l, s, _, _) in obligations if s == "unsat")
        bad_props = [l for (l, r, _) in CS.results if not r and l in proved]
        if ok and bad_props and not any(o[1] == "sat" for o in obligations):
            ok = False
        if not ok:
            # rounding of the rational model may have changed a decision:
            # retry with a model that is exact in doubles
            nice, nice_obs = _nice_model(ctx)
            if nice is not None:
                sym_obs = nice_obs
                CS, cexc = run_concrete(h, nice)
                conc_obs = [(l, plain(v)) for (l, v) in CS.observations]
                if ctx.uf_used:
                    ok = cexc is None and [a[0] for a in sym_obs] == [b[0] for b in conc_obs]
                else:
                    ok = (cexc is None and len(sym_obs) == len(conc_obs)
                          and all(a[0] == b[0] and obs_equal(a[1], b[1], h.rtol or 1e-7) for a, b in zip(sym_obs, conc_obs)))
                bad_props = [l for (l, r, _) in CS.results if not r and l in proved]
                tries = 0
                while ok and bad_props and tries < 3:
                    # the code's outputs agree with the model but the harness's own oracle, evaluated in
                    # doubles, disagrees with an obligation proved over the reals: a rounding coincidence is
                    # specific to the chosen numbers, an oracle error is not -- ask for other dyadic models
                    tries += 1
                    differ = [ctx.inputs[n][2] != z3.RealVal(repr(float(v))) for n, v in nice.items()
                              if n in ctx.inputs and ctx.inputs[n][0] == "real" and isinstance(v, float) and v == v and abs(v) != float("inf")]
                    if not differ:
                        break
                    again, again_obs = _nice_model(ctx, z3.And(*differ) if len(differ) > 1 else differ[0])
                    if again is None:
                        break
                    CS, cexc = run_concrete(h, again)
                    conc_obs = [(l, plain(v)) for (l, v) in CS.observations]
                    same = (cexc is None and len(again_obs) == len(conc_obs)
                            and all(a[0] == b[0] and obs_equal(a[1], b[1], h.rtol or 1e-7) for a, b in zip(again_obs, conc_obs)))
                    if ctx.uf_used:
                        same = cexc is None and [a[0] for a in again_obs] == [b[0] for b in conc_obs]
                    if not same:
                        break
                    nice, sym_obs = again, again_obs
                    bad_props = [l for (l, r, _) in CS.results if not r and l in proved]
                if ok and bad_props:
                    ok = False
                final = nice
                witness = {"ok": ok, "nice": True}
            else:
                witness = {"ok": None, "nice": False}   # cannot decide: skipped
        else:
            witness = {"ok": True, "nice": False}
        if witness["ok"] is False:
            witness["sym"] = sym_obs[:6]
            witness["conc"] = conc_obs[:6]
            witness["exc"] = cexc
            witness["bad_props"] = bad_props
            witness["inputs"] = final

    # ---- confirm counterexamples by replay
    for c in cex:
        c["confirmed"] = _confirm(h, ctx, c)

    rec.update({
        "decisions": "".join("1" if d else "0" for d in ctx.decisions),
        "pending": ctx.pending,
        "obligations": obligations,
        "cex": cex,
        "witness": witness,
        "queries": ctx.queries,
        "solver_time": round(ctx.solver_time, 4),
        "branch_unknown": ctx.branch_unknown,
        "portfolio": ctx.portfolio,
        "realized": ctx.realized + ctx.message_float_count,
        "time": round(time.time() - t0, 4),
        "inputs": final,
        "n_obs": len(ctx.observations),
        "notes": ctx.notes[:5],
        "exc": exc_info,
    })
    return rec


def _confirm_inputs(h, c, inputs):
    CS, cexc = run_concrete(h, inputs)
    if c["kind"] == "exception":
        if cexc is not None and cexc[0] == c["exc"][0]:
            return True, cexc
        return False, cexc
    if cexc is not None:
        # the concrete run died before reaching the oracle
        return False, cexc
    for (l, r, d) in CS.results:
        if l == c["label"] and not r:
            return True, None
    return False, None


def _confirm(h, ctx, c):
    ok, cexc = _confirm_inputs(h, c, c["inputs"])
    if ok:
        return True
    # rounding: ask for a dyadic model of the same violated obligation
    return False


# ------------------------------------------------------------------ worker task
def worker_task(module, tier, name, prefixes, opts):
    _start_monitoring()
    h = get_harness(module, tier, name)
    stack = list(prefixes)
    recs = []
    t0 = time.time()
    while stack and len(recs) < opts.chunk_paths and time.time() - t0 < opts.chunk_seconds:
        p = stack.pop()
        try:
            rec = run_one(h, p, opts)
        except Exception as e:       # a defect of the engine itself: the path is lost, never the whole run
            core.set_current(None)
            rec = {"status": "engine_error", "msg": "%s: %s" % (type(e).__name__, str(e)[:200]), "decisions": "".join("1" if d else "0" for d in p),
                   "pending": [], "obligations": [], "cex": [], "witness": None, "queries": 0, "solver_time": 0.0,
                   "branch_unknown": 0, "realized": 0, "time": 0.0, "inputs": None, "n_obs": 0, "notes": [], "exc": None, "portfolio": {}}
        stack.extend(rec.pop("pending"))
        recs.append(rec)
    funcs = list(_MON["funcs"].keys())
    lines = list(_MON["lines"])
    return recs, stack, funcs, lines, sorted(arrays.MODELS_USED)


# ------------------------------------------------------------------ coordinator
class Summary(object):
    def __init__(self, h):
        self.harness = h.name
        self.doc = h.doc
        self.paths = 0
        self.status = {}
        self.transitions = 0
        self.obligations = 0
        self.discharged = 0
        self.inconclusive = 0
        self.queries = 0
        self.solver_time = 0.0
        self.witness_ok = 0
        self.witness_bad = []
        self.witness_skipped = 0
        self.violations = []     # confirmed cex dicts
        self.unconfirmed = []
        self.twin_sat = set()
        self.twin_seen = set()
        self.samples = []
        self.unsupported = {}
        self.exhaustive = True
        self.realized = 0
        self.labels = {}
        self.wall = 0.0
        self.branch_unknown = 0
        self.portfolio = {}
        self.max_depth = 0

    def add(self, rec):
        self.paths += 1
        st = rec["status"]
        self.status[st] = self.status.get(st, 0) + 1
        self.transitions += len(rec["decisions"])
        self.max_depth = max(self.max_depth, len(rec["decisions"]))
        self.queries += rec["queries"]
        self.solver_time += rec["solver_time"]
        self.realized += rec["realized"]
        self.branch_unknown += rec["branch_unknown"]
        for k, v in rec.get("portfolio", {}).items():
            self.portfolio[k] = self.portfolio.get(k, 0) + v
        if st in ("unsupported", "engine_error"):
            self.unsupported[rec["msg"]] = self.unsupported.get(rec["msg"], 0) + 1
        for (label, status, t, twin) in rec["obligations"]:
            self.obligations += 1
            d = self.labels.setdefault(label, {"unsat": 0, "sat": 0, "unknown": 0, "solver_s": 0.0})
            d[status] += 1
            d["solver_s"] = round(d["solver_s"] + t, 3)
            if status == "unsat":
                self.discharged += 1
            elif status == "unknown":
                self.inconclusive += 1
            if twin is not None:
                self.twin_seen.add(label)
                if twin == "sat":
                    self.twin_sat.add(label)
        for c in rec["cex"]:
            c = dict(c)
            c["decisions"] = rec["decisions"]
            if c["confirmed"]:
                self.violations.append(c)
            else:
                self.unconfirmed.append(c)
        w = rec["witness"]
        if w is not None:
            if w["ok"] is True:
                self.witness_ok += 1
            elif w["ok"] is None:
                self.witness_skipped += 1
            else:
                self.witness_bad.append({"decisions": rec["decisions"], "w": w})
        if len(self.samples) < 3 and st == "ok" and rec["inputs"]:
            self.samples.append({"harness": self.harness, "decisions": rec["decisions"],
                                 "model_inputs": _jsonable(rec["inputs"]),
                                 "obligations": [[o[0], o[1]] for o in rec["obligations"]][:8]})


def _jsonable(x):
    if isinstance(x, dict):
        return {str(k): _jsonable(v) for k, v in x.items()}
    if isinstance(x, (list, tuple)):
        return [_jsonable(v) for v in x]
    if isinstance(x, float):
        if x != x:
            return "NaN"
        if x in (float("inf"), float("-inf")):
            return "Infinity" if x > 0 else "-Infinity"
        return x
    if isinstance(x, (np.generic,)):
        return _jsonable(x.item())
    if isinstance(x, (int, str, bool)) or x is None:
        return x
    return str(x)


def explore(module, tier, name, opts, executor, cov):
    h = get_harness(module, tier, name)
    summ = Summary(h)
    pending = [[]]
    inflight = set()
    t0 = time.time()
    max_paths = h.max_paths or opts.max_paths
    submitted = 0
    while pending or inflight:
        over = summ.paths + len(inflight) * 1 >= max_paths or (time.time() - t0) > opts.wall_budget_s
        if over and pending:
            summ.exhaustive = False
            pending = []
        while pending and len(inflight) < opts.jobs * 2:
            # hand out small batches so that the tree spreads over the workers
            n = max(1, min(len(pending) // (opts.jobs * 2) or 1, 8))
            batch = [pending.pop() for _ in range(min(n, len(pending)))]
            inflight.add(executor.submit(worker_task, module, tier, name, batch, opts))
            submitted += 1
        if not inflight:
            break
        done, inflight = cf.wait(inflight, return_when=cf.FIRST_COMPLETED)
        for f in done:
            recs, rest, funcs, lines, models = f.result()
            for r in recs:
                summ.add(r)
            pending.extend(rest)
            for fn in funcs:
                cov["funcs"].add(tuple(fn))
            for ln in lines:
                cov["lines"].add(tuple(ln))
            cov["models"].update(models)
    summ.wall = time.time() - t0
    return summ


def make_executor(jobs):
    ctx = multiprocessing.get_context("fork")
    return cf.ProcessPoolExecutor(max_workers=jobs, mp_context=ctx)


# -------------------------------------------------------------------- replays
def write_replay(prop, module, tier, harness, c):
    os.makedirs(REPLAY_DIR, exist_ok=True)
    payload = {"property": prop, "module": module, "tier": tier, "harness": harness,
               "label": c["label"], "kind": c["kind"], "detail": c.get("detail"),
               "exc": c.get("exc"), "inputs": _jsonable(c["inputs"]), "decisions": c.get("decisions")}
    text = json.dumps(payload, sort_keys=True, indent=1)
    digest = hashlib.sha1(text.encode()).hexdigest()[:10]
    path = os.path.join(REPLAY_DIR, "%s-%s-%s.json" % (prop, harness.replace("/", "_"), digest))
    with open(path, "w") as f:
        f.write(text)
    return path


def _unjson(x):
    if isinstance(x, dict):
        return {k: _unjson(v) for k, v in x.items()}
    if x == "NaN":
        return float("nan")
    if x == "Infinity":
        return float("inf")
    if x == "-Infinity":
        return float("-inf")
    return x


def replay_file(path):
    with open(path) as f:
        payload = json.load(f)
    load.load()
    h = get_harness(payload["module"], payload["tier"], payload["harness"])
    c = {"label": payload["label"], "kind": payload["kind"], "exc": payload.get("exc")}
    ok, cexc = _confirm_inputs(h, c, _unjson(payload["inputs"]))
    print("replay %s harness=%s label=%s" % (path, payload["harness"], payload["label"]))
    print("inputs:", json.dumps(payload["inputs"], sort_keys=True))
    if cexc is not None:
        print("exception on the unmodified code: %s: %s (%s)" % tuple(cexc))
    if ok:
        print("REPRODUCED: the property fails on the unmodified code with the real libraries")
        return 1
    print("not reproduced")
    return 0
