"""C15 -- aggregators and -T pre-aggregation compute the documented statistics.

Kernel: every __call__ in verif/aggregator.py (through aggregator.get),
preaggregate_leadtime / preaggregate_time, Data.preaggregate and its call
sites in _get_score (obs, fcst, ensemble members, ensemble-derived threshold
and quantile fields)."""
import numpy as np

from symx.explore import Harness
from symx import load
from harness import common, ref

BOUNDS = {
    "quick": {"aggregators": "14 classes + quantile levels 0, 0.1, 0.5, 1 on vectors of 1..3, 2x2 and 1x2x2 arrays along every axis",
              "window": "3 lead times / init times with symbolic spacing, symbolic window length, 6 aggregation functions",
              "through Data": "obs, fcst, 2 ensemble members, ensemble-derived threshold and quantile fields on 1x3x1"},
    "thorough": {"aggregators": "vectors of 1..4, 2x2 and 2x2x2 arrays along every axis",
                 "window": "4 lead times, all 18 aggregation functions", "through Data": "2x3x2"},
}
ASSUMPTIONS = ["values given to an aggregator are finite reals", "lead-time / time grids are strictly ascending (unsorted grids are not in the quantifier)",
               "float32 rounding of the pre-aggregated array is outside the claim (the concrete replay compares with relative tolerance 1e-5)"]
STUBS = ["inputs are in-memory verif.input.Input subclasses"]


def h_aggregators(maxn, cube):
    def fn(S):
        aggmod = load.modules["verif.aggregator"]
        menu = ref.agg_menu()
        # every aggregator class of the module is on the menu
        S.prove("menu-covers-all-aggregator-classes",
                sorted(c.name() for c in aggmod.get_all() if c.name() != "quantile") == sorted(ref.AGG_NAMES))
        a = S.choose("agg", len(menu))
        name = menu[a]
        agg = ref.make_aggregator(aggmod, name)
        shapes = [(n,) for n in range(1, maxn + 1)] + [(2, 2)] + ([(2, 2, 2)] if cube else [(1, 2, 2)])   # verif's arrays are 3-D
        si = S.choose("shape", len(shapes))
        shape = shapes[si]
        axes = [None] + list(range(len(shape))) if len(shape) > 1 else [None]
        axis = axes[S.choose("axis", len(axes))]
        arr = S.array("x", shape, nan=False)
        got = agg(arr, axis=axis)
        S.observe("agg", got)
        raw = np.asarray(arr, dtype=object) if S.symbolic else np.asarray(arr)
        tag = "%s/%s" % (name, "all" if axis is None else "axis%d" % axis)
        if axis is None:
            want = ref.r_agg(S, name, list(raw.reshape(-1)))
            S.prove("statistic=%s" % tag, S.same(got, want), twin=S.same(got, want + 1))
            return
        moved = np.moveaxis(raw, axis, -1)
        gotarr = np.asarray(got, dtype=object) if S.symbolic else np.asarray(got)
        S.prove("result-shape", tuple(gotarr.shape) == tuple(moved.shape[:-1]), detail=tag)
        if tuple(gotarr.shape) != tuple(moved.shape[:-1]):
            return
        for idx in np.ndindex(*moved.shape[:-1]):
            want = ref.r_agg(S, name, list(moved[idx]))
            S.prove("statistic=%s" % tag, S.same(gotarr[idx], want), twin=S.same(gotarr[idx], want + 1))
    return fn


WINDOW_AGGS = ["mean", "sum", "max", "min", "change", "count"]


def h_window(dim, L, all_aggs):
    def fn(S):
        data = load.modules["verif.data"]
        aggmod = load.modules["verif.aggregator"]
        menu = ref.agg_menu() if all_aggs else WINDOW_AGGS
        a = S.choose("agg", len(menu))
        name = menu[a]
        agg = ref.make_aggregator(aggmod, name)
        if dim == "leadtime":
            grid = [S.real("l%d" % i, lo=0, hi=240) for i in range(L)]
            h = S.real("h", lo=0.001, hi=500)
            unit = 1
        else:
            grid = [S.integer("t%d" % i, lo=0, hi=10 * 86400) for i in range(L)]
            h = S.integer("h", lo=1, hi=300)
            unit = 3600
        for i in range(L - 1):
            S.assume(grid[i] < grid[i + 1])
        shape = (1, L, 1) if dim == "leadtime" else (L, 1, 1)
        x = S.array("x", shape, nan=False)
        xs = S.elements(x)
        coords = S.vector(grid) if dim == "leadtime" else common.int_array(S, grid)
        if dim == "leadtime":
            got = data.preaggregate_leadtime(x, coords, agg, h)
        else:
            got = data.preaggregate_time(x, coords, agg, h)
        ge = S.elements(got)
        S.observe("windowed", ge)
        S.prove("shape-preserved", tuple(got.shape) == tuple(shape))
        for i in range(L):
            members = [xs[j] for j in range(i + 1) if bool(grid[j] > grid[i] - h * unit)]
            want = ref.r_agg(S, name, members)
            S.prove("trailing-window=%s/%s" % (dim, name), S.same(ge[i], want), twin=S.same(ge[i], want + 1))
    return fn


def h_through_data(T, P):
    def fn(S):
        data = load.modules["verif.data"]
        aggmod = load.modules["verif.aggregator"]
        f = load.modules["verif.field"]
        ax = load.modules["verif.axis"]
        MI = common.input_class()
        L, M = 3, 2
        lts = [0.0, 6.0, 12.0]
        h = [6, 12, 18][S.choose("window", 3)]
        name = ["sum", "mean", "max"][S.choose("agg", 3)]
        shape = (T, L, P)
        obs = S.array("obs", shape, nan=False)
        fcst = S.array("fcst", shape, nan=False)
        ens = S.array("ens", shape + (M,), nan=False)
        inp = MI("A.txt", common.int_array(S, [86400 * i for i in range(T)]), S.vector(lts),
                 common.locations(list(range(1, P + 1))), obs=obs.copy(), fcst=fcst.copy(), ensemble=ens.copy())
        D = data.Data([inp], dim_agg_length=h, dim_agg_axis=ax.Leadtime(), dim_agg_method=ref.make_aggregator(aggmod, name))
        which = S.choose("field", 5)
        thr = S.real("threshold")
        fld = [f.Obs(), f.Fcst(), f.Ensemble(1), f.Threshold(thr), f.Quantile(0.5)][which]
        fname = ["obs", "fcst", "ensemble-member", "threshold-from-ensemble", "quantile-from-ensemble"][which]
        got = D.get_scores(fld, 0, ax.All(), None)
        S.observe("field", got)

        def window(series, l):
            return ref.r_agg(S, name, [series[j] for j in range(l + 1) if lts[j] > lts[l] - h])
        for t in range(T):
            for p in range(P):
                for l in range(L):
                    if which == 0:
                        want = window([obs[t, j, p] for j in range(L)], l)
                    elif which == 1:
                        want = window([fcst[t, j, p] for j in range(L)], l)
                    elif which == 2:
                        want = window([ens[t, j, p, 1] for j in range(L)], l)
                    else:
                        members = [window([ens[t, j, p, m] for j in range(L)], l) for m in range(M)]
                        if which == 3:
                            want = S.div(S.count(x <= thr for x in members), M)
                        else:
                            want = S.div(members[0] + members[1], 2.0)     # median of two members
                    S.prove("pre-aggregated-before-use=%s" % fname, S.same(got[t, l, p], want),
                            twin=S.same(got[t, l, p], want + 1), detail="%s/T%d" % (name, h))
    return fn


def h_two_grids():
    """-T uses each input's own lead-time grid: two inputs whose grids have the
    same length but different values (common lead times 0, 6, 12)."""
    def fn(S):
        data = load.modules["verif.data"]
        aggmod = load.modules["verif.aggregator"]
        f = load.modules["verif.field"]
        ax = load.modules["verif.axis"]
        MI = common.input_class()
        grids = [[0.0, 3.0, 6.0, 12.0], [0.0, 6.0, 9.0, 12.0]]
        h = [6, 9][S.choose("window", 2)]
        name = ["sum", "mean"][S.choose("agg", 2)]
        ins, raw = [], []
        for k, g in enumerate(grids):
            fc = S.array("in%d.fcst" % k, (1, 4, 1), nan=False)
            ob = S.array("in%d.obs" % k, (1, 4, 1), nan=False)
            raw.append((ob, fc))
            ins.append(MI("in%d.txt" % k, common.int_array(S, [0]), S.vector(g), common.locations([1]), obs=ob.copy(), fcst=fc.copy()))
        order = S.choose("order", 2)
        if order:
            ins, raw, grids = ins[::-1], raw[::-1], grids[::-1]
        D = data.Data(ins, dim_agg_length=h, dim_agg_axis=ax.Leadtime(), dim_agg_method=ref.make_aggregator(aggmod, name))
        S.prove("common-lead-times", [float(x) for x in D.leadtimes] == [0.0, 6.0, 12.0])
        first = S.choose("first-request", 2)
        for k in ([0, 1] if first == 0 else [1, 0]):
            got = D.get_scores(f.Fcst(), k, ax.All(), None)
            gobs = D.get_scores(f.Obs(), k, ax.All(), None)
            g = grids[k]
            for j, lt in enumerate([0.0, 6.0, 12.0]):
                members = [raw[k][1][0, i, 0] for i in range(4) if g[i] <= lt and g[i] > lt - h]
                want = ref.r_agg(S, name, members)
                S.prove("window-on-the-inputs-own-grid", S.same(got[0, j, 0], want), twin=S.same(got[0, j, 0], want + 1),
                        detail="input %d/%s/T%d" % (k, name, h))
                # observations are pre-aggregated identically, on the grid of the input they are read from
                omembers = [raw[k][0][0, i, 0] for i in range(4) if g[i] <= lt and g[i] > lt - h]
                owant = ref.r_agg(S, name, omembers)
                S.prove("observations-windowed-on-their-own-inputs-grid", S.same(gobs[0, j, 0], owant), twin=S.same(gobs[0, j, 0], owant + 1),
                        detail="input %d/%s/T%d" % (k, name, h))
    return fn


def harnesses(tier):
    thorough = tier == "thorough"
    return [
        Harness("two_grids", h_two_grids(), "-T with two inputs on different lead-time grids of equal length", rtol=1e-5),
        Harness("aggregators", h_aggregators(4 if thorough else 3, thorough), "every aggregator along every axis"),
        Harness("window.leadtime", h_window("leadtime", 4 if thorough else 3, thorough), "preaggregate_leadtime", rtol=1e-5),
        Harness("window.time", h_window("time", 4 if thorough else 3, thorough), "preaggregate_time", rtol=1e-5),
        Harness("through_data", h_through_data(2 if thorough else 1, 2 if thorough else 1), "-T applied to obs, fcst, members and derived fields", rtol=1e-5),
    ]
