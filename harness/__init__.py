"""One module per property: harness functions, oracles and bounds per tier."""
