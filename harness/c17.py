"""C17 -- plot appearance options are honoured (partial: dataflow to the draw calls).

Kernel: verif.driver.run option parsing and option -> output attribute
assignment, Output.plot, Standard._plot_core, _adjust_axis/_adjust_axes,
_legend, _save_plot, _get_plot_options, _plot_perfect_score, _add_annotation,
with a real Data object.  Boundary: matplotlib.pyplot / Axes / Figure are
recording stubs; the claim is that the option's (symbolic) value arrives,
unchanged or through the documented conversion, as the documented argument of
the documented matplotlib call.  NOT decided: what matplotlib does with the
call, the image format and its pixel size."""
import numpy as np

from symx.explore import Harness
from symx import load
from symx import mplstub
from harness import common

BOUNDS = {
    "quick": {"options": "45 appearance options one at a time with symbolic numeric values, plus limits combined with ticks", "plot": "standard line plot of mae along lead time (and along location for annotations), 2 inputs"},
    "thorough": {"options": "same, plus all ordered pairs of 9 options", "plot": "same"},
}
ASSUMPTIONS = ["numeric option values are decimals with <= 3 places", "the dataset is concrete (its content is irrelevant to the dataflow of the options)"]
STUBS = ["matplotlib.pyplot in verif.output and verif.util -> recording stub (symx/mplstub.py)", "verif.input.get_input -> small in-memory inputs"]


def run_plot(S, words, axis=None, metric="mae", missing_first_location=False):
    drv = load.modules["verif.driver"]
    inp = load.modules["verif.input"]
    out = load.modules["verif.output"]
    util = load.modules["verif.util"]
    MI = common.input_class()
    rng = np.random.RandomState(3)
    files = {}
    for nm in ("A.txt", "B.txt"):
        obs = np.round(rng.uniform(0, 5, (2, 3, 2)), 1)
        fcst = np.round(rng.uniform(0, 5, (2, 3, 2)), 1)
        if missing_first_location:
            obs[:, :, 0] = np.nan         # no score at the first location: its point gets no annotation
        files[nm] = MI(nm, common.int_array(S, [0, 86400]), S.const([0.0, 6.0, 12.0]),
                       common.locations([1, 2], [60.0, 61.5], [10.0, 11.25], [5.0, 150.0]),
                       obs=S.const(obs), fcst=S.const(fcst))
    stub = mplstub.Pyplot()
    saved = (inp.get_input, out.mpl, util.mpl)
    inp.get_input = lambda f: files[f]
    out.mpl = stub
    util.mpl = stub
    argv = ["verif", "A.txt", "B.txt", "-m", metric, "-f", "out.png"] + (["-x", axis] if axis else []) + list(words)
    code = None
    try:
        try:
            drv.run(argv)
        except SystemExit as e:
            code = e.code if e.code is not None else 0
    finally:
        inp.get_input, out.mpl, util.mpl = saved
    return stub.calls, code


def any_call(S, calls, target, method, pred):
    """Some recorded call target.method(...) satisfies pred(args, kwargs)."""
    res = False
    for c in calls.find(target, method):
        try:
            r = pred(c[2], c[3])
        except (KeyError, IndexError, TypeError):
            r = False
        res = S.or_(res, r)
    return res


def all_calls(S, calls, target, method, pred):
    found = calls.find(target, method)
    if not found:
        return False
    res = True
    for c in found:
        try:
            r = pred(c[2], c[3])
        except (KeyError, IndexError, TypeError):
            r = False
        res = S.and_(res, r)
    return res


def seq_same(S, got, want):
    got, want = list(got), list(want)
    return len(got) == len(want) and S.all(S.same(a, b) for a, b in zip(got, want))


def options(S):
    """name -> (argv words, axis or None, check(calls) -> condition)"""
    def dec(name, lo=0, hi=20):
        return S.token_decimal(name, lo, hi)
    t = {}

    def two(flag):
        (ta, va), (tb, vb) = dec(flag + ".a", -20, 20), dec(flag + ".b", -20, 20)
        return S.arg([ta, ",", tb]), [va, vb]
    for flag, method in (("-xlim", "set_xlim"), ("-ylim", "set_ylim"), ("-xticks", "set_xticks"), ("-yticks", "set_yticks")):
        arg, vals = two(flag)
        t[flag] = ([flag, arg], None, lambda c, m=method, v=vals: any_call(S, c, "ax", m, lambda a, k: seq_same(S, a[0], v)))
    t["-title"] = (["-title", "My_title"], None, lambda c: any_call(S, c, "ax", "set_title", lambda a, k: a[0] == "My title"))
    t["-xlabel"] = (["-xlabel", "Lead"], None, lambda c: any_call(S, c, "ax", "set_xlabel", lambda a, k: a[0] == "Lead"))
    t["-ylabel"] = (["-ylabel", "Err"], None, lambda c: any_call(S, c, "ax", "set_ylabel", lambda a, k: a[0] == "Err"))
    t["-xticklabels"] = (["-xticklabels", "a,b"], None, lambda c: any_call(S, c, "ax", "set_xticklabels", lambda a, k: list(a[0]) == ["a", "b"]))
    t["-yticklabels"] = (["-yticklabels", "c,d"], None, lambda c: any_call(S, c, "ax", "set_yticklabels", lambda a, k: list(a[0]) == ["c", "d"]))
    for flag, labels in (("-xrot", ("ax.xticklabel0", "ax.xticklabel1")), ("-yrot", ("ax.yticklabel0", "ax.yticklabel1"))):
        tok, v = dec(flag, 0, 360)
        t[flag] = ([flag, tok], None, lambda c, v=v, labels=labels: S.all(any_call(S, c, l, "set_rotation", lambda a, k: S.same(a[0], v)) for l in labels))
    t["-xlog"] = (["-xlog"], None, lambda c: any_call(S, c, "ax", "set_xscale", lambda a, k: a[0] == "log"))
    t["-ylog"] = (["-ylog"], None, lambda c: any_call(S, c, "ax", "set_yscale", lambda a, k: a[0] == "log"))
    tok, v = dec("-legfs", 1, 40)
    t["-legfs"] = (["-legfs", tok], None, lambda c, v=v: any_call(S, c, "mpl", "legend", lambda a, k: S.same(k["prop"]["size"], v)))
    t["-legloc"] = (["-legloc", "lower_right"], None, lambda c: any_call(S, c, "mpl", "legend", lambda a, k: k["loc"] == "lower right"))
    t["-leg"] = (["-leg", "first,second_run"], None, lambda c: S.and_(any_call(S, c, "mpl", "plot", lambda a, k: k["label"] == "first"),
                                                                      any_call(S, c, "mpl", "plot", lambda a, k: k["label"] == "second run")))
    t["-lc"] = (["-lc", "g,k"], None, lambda c: S.and_(any_call(S, c, "mpl", "plot", lambda a, k: k["color"] == "g" and k["label"] == "A.txt"),
                                                       any_call(S, c, "mpl", "plot", lambda a, k: k["color"] == "k" and k["label"] == "B.txt")))
    t["-ls"] = (["-ls", ":,--"], None, lambda c: S.and_(any_call(S, c, "mpl", "plot", lambda a, k: k["ls"] == ":" and k["label"] == "A.txt"),
                                                        any_call(S, c, "mpl", "plot", lambda a, k: k["ls"] == "--" and k["label"] == "B.txt")))
    t["-ma"] = (["-ma", "s,x"], None, lambda c: S.and_(any_call(S, c, "mpl", "plot", lambda a, k: k["marker"] == "s" and k["label"] == "A.txt"),
                                                       any_call(S, c, "mpl", "plot", lambda a, k: k["marker"] == "x" and k["label"] == "B.txt")))
    tok, v = dec("-lw", 0, 10)
    t["-lw"] = (["-lw", S.arg([tok])], None, lambda c, v=v: all_calls(S, c, "mpl", "plot", lambda a, k: S.same(k["lw"], v)))
    tok, v, _ = S.token("-ms", integer=True)
    S.assume(S.and_(v >= 1, v <= 30))
    t["-ms"] = (["-ms", S.arg([tok])], None, lambda c, v=v: all_calls(S, c, "mpl", "plot", lambda a, k: S.same(k["ms"], v)))
    tok, v = dec("-labfs", 1, 40)
    t["-labfs"] = (["-labfs", tok], None, lambda c, v=v: S.and_(any_call(S, c, "ax", "set_xlabel", lambda a, k: S.same(k["fontsize"], v)),
                                                                any_call(S, c, "ax", "set_ylabel", lambda a, k: S.same(k["fontsize"], v))))
    tok, v = dec("-tickfs", 1, 40)
    t["-tickfs"] = (["-tickfs", tok], None, lambda c, v=v: S.all(any_call(S, c, l, "set_fontsize", lambda a, k: S.same(a[0], v))
                                                                 for l in ("ax.xticklabel0", "ax.yticklabel1")))
    tok, v = dec("-titlefs", 1, 40)
    t["-titlefs"] = (["-titlefs", tok, "-title", "T"], None, lambda c, v=v: any_call(S, c, "ax", "set_title", lambda a, k: S.same(k["fontsize"], v)))
    t["-gc"] = (["-gc", "m"], None, lambda c: any_call(S, c, "ax", "grid", lambda a, k: k["color"] == "m"))
    t["-gs"] = (["-gs", ":"], None, lambda c: any_call(S, c, "ax", "grid", lambda a, k: k["linestyle"] == ":"))
    tok, v = dec("-gw", 0, 10)
    t["-gw"] = (["-gw", tok], None, lambda c, v=v: any_call(S, c, "ax", "grid", lambda a, k: S.same(k.get("lw", k.get("linewidth")), v)))
    t["-nogrid"] = (["-nogrid"], None, lambda c: len(c.find("ax", "grid")) == 0)
    t["-sp"] = (["-sp"], None, lambda c: any_call(S, c, "mpl", "plot", lambda a, k: k.get("label") == "ideal"))
    tok, v = dec("-aspect", 0, 5)
    t["-aspect"] = (["-aspect", tok], None, lambda c, v=v: any_call(S, c, "ax", "set_aspect", lambda a, k: S.same(a[0], v)))
    (tw, vw, _), (th, vh, _) = S.token("-fs.w", integer=True), S.token("-fs.h", integer=True)
    S.assume(S.and_(vw >= 1, vw <= 30, vh >= 1, vh <= 30))
    t["-fs"] = (["-fs", S.arg([tw, ",", th])], None, lambda c: any_call(S, c, "fig", "set_size_inches", lambda a, k: S.and_(S.same(a[0], vw), S.same(a[1], vh))))
    tok, v, _ = S.token("-dpi", integer=True)
    S.assume(S.and_(v >= 10, v <= 600))
    t["-dpi"] = (["-dpi", tok], None, lambda c, v=v: any_call(S, c, "mpl", "savefig", lambda a, k: S.same(k["dpi"], v)))
    for side in ("left", "right", "top", "bottom"):
        tok, v = S.token_decimal("-" + side, 0, 1)
        # the requested margin reaches subplots_adjust, and the file is then saved with exactly these margins
        # (bbox_inches='tight' would crop them away)
        t["-" + side] = (["-" + side, tok], None, lambda c, v=v, side=side: S.and_(
            any_call(S, c, "fig", "subplots_adjust", lambda a, k: S.same(k[side], v)),
            all_calls(S, c, "mpl", "savefig", lambda a, k: k.get("bbox_inches") is None)))
    t["-nomargin"] = (["-nomargin"], None, lambda c: any_call(S, c, "mpl", "subplots_adjust", lambda a, k: k["left"] == 0 and k["right"] == 1 and k["top"] == 1 and k["bottom"] == 0))
    t["-f"] = ([], None, lambda c: any_call(S, c, "mpl", "savefig", lambda a, k: a[0] == "out.png" and k.get("bbox_inches") == "tight"))
    # limits together with ticks: both arrive, and the limits are set last (matplotlib's set_xticks /
    # set_yticks widen the view so that every tick is visible, which would override the user's limits)
    def last_index(c, method):
        idx = [i for i, call in enumerate(c.items) if call[0] == "ax" and call[1] == method]
        return idx[-1] if idx else None
    for axn in ("x", "y"):
        la, lv = two("-%slim#2" % axn)
        ta, tv = two("-%sticks#2" % axn)
        t["-%slim with -%sticks" % (axn, axn)] = (
            ["-%sticks" % axn, ta, "-%slim" % axn, la], None,
            lambda c, axn=axn, lv=lv, tv=tv: S.and_(
                any_call(S, c, "ax", "set_%slim" % axn, lambda a, k: seq_same(S, a[0], lv)),
                any_call(S, c, "ax", "set_%sticks" % axn, lambda a, k: seq_same(S, a[0], tv)),
                last_index(c, "set_%sticks" % axn) is not None and last_index(c, "set_%slim" % axn) is not None and
                last_index(c, "set_%sticks" % axn) < last_index(c, "set_%slim" % axn)))
    # -sp on a diagram whose ideal score is the diagonal, together with -xlim: the ideal line spans the
    # requested limits as well as the data limits (the recording stub reports data limits (0, 1))
    la, lv = two("-xlim#3")
    t["-sp with -xlim on qq"] = (["-sp", "-xlim", la], None,
                                 lambda c, lv=lv: any_call(S, c, "mpl", "plot", lambda a, k: k.get("label") == "ideal" and S.and_(
                                     S.same(a[0][0], S.min2(0.0, lv[0])), S.same(a[0][1], S.max2(1.0, lv[1])),
                                     S.same(a[1][0], S.min2(0.0, lv[0])), S.same(a[1][1], S.max2(1.0, lv[1])))), "qq")
    # annotations along the location axis: 'score key' by default, the requested fields with -af
    t["-a"] = (["-a"], "location", lambda c: len(c.find("mpl", "text")) == 4)
    t["-af"] = (["-a", "-af", "lat,lon,elev,location"], "location",
                lambda c: any_call(S, c, "mpl", "text", lambda a, k: a[2] == "60 10 5 1 ") and any_call(S, c, "mpl", "text", lambda a, k: a[2] == "61.5 11.25 150 2 "))
    # a point without a score is not annotated, and the others keep their own labels
    t["-af with a missing score"] = (["-a", "-af", "lat,lon,elev,location"], "location",
                                     lambda c: len(c.find("mpl", "text")) == 2 and all_calls(S, c, "mpl", "text", lambda a, k: a[2] == "61.5 11.25 150 2 "),
                                     "mae", True)
    tok, v = dec("-afs", 1, 40)
    t["-afs"] = (["-a", "-afs", tok], "location", lambda c, v=v: all_calls(S, c, "mpl", "text", lambda a, k: S.same(k["fontsize"], v)))
    return t


def h_single():
    def fn(S):
        table = options(S)
        names = sorted(table)
        name = names[S.choose("option", len(names))]
        words, axis, check = table[name][:3]
        calls, code = run_plot(S, words, axis, *table[name][3:])
        S.prove("plot-completes", code is None and len(calls.find("mpl", "savefig")) == 1, detail=name)
        S.prove("one-line-per-input-in-order",
                [c[3].get("label") for c in calls.find("mpl", "plot") if c[3].get("label") not in ("ideal", None, "")][:2] ==
                (["first", "second run"] if name == "-leg" else ["A.txt", "B.txt"]), detail=name)

        S.prove("option-takes-effect=%s" % name, check(calls), detail=name)
    return fn


PAIR_OPTIONS = ["-xrot", "-yrot", "-gw", "-titlefs", "-xlim", "-labfs", "-lw", "-dpi", "-legfs"]


def h_pairs():
    def fn(S):
        table = options(S)
        i = S.choose("first", len(PAIR_OPTIONS))
        j = S.choose("second", len(PAIR_OPTIONS))
        if i == j:
            return
        a, b = PAIR_OPTIONS[i], PAIR_OPTIONS[j]
        calls, code = run_plot(S, table[a][0] + table[b][0])
        S.prove("plot-completes", code is None)
        S.prove("effect-independent-of-other-options=%s" % a, table[a][2](calls), detail="with %s" % b)
        S.prove("effect-independent-of-other-options=%s" % b, table[b][2](calls), detail="with %s" % a)
    return fn


def harnesses(tier):
    hs = [Harness("single_option", h_single(), "each appearance option alone")]
    if tier == "thorough":
        hs.append(Harness("option_pairs", h_pairs(), "all ordered pairs of 9 options"))
    return hs
