"""Harnesses shared by several properties: the probability of a threshold as a
*derived* quantity of an input (its own stored cdf column, or the fraction of
its valid ensemble members), with two inputs that differ in what they store."""
import numpy as np

from symx import load
from harness import common


def h_threshold_layouts(T, P):
    """Two inputs whose stored threshold lists differ (A: 1, 5; B: 5, 10): the
    probability of threshold 5 is read from each input's own column for 5,
    whatever the other input stores and in whichever order they are given."""
    def fn(S):
        data = load.modules["verif.data"]
        f = load.modules["verif.field"]
        ax = load.modules["verif.axis"]
        MI = common.input_class()
        shape = (T, 1, P)
        layouts = {"A": [1.0, 5.0], "B": [5.0, 10.0]}
        store, ins = {}, {}
        for nm in ("A", "B"):
            obs = S.array(nm + ".obs", shape, nan=False)
            fc = S.array(nm + ".fcst", shape, nan=False)
            pr = S.array(nm + ".p", shape + (2,), nan=(nm == "B"), lo=0, hi=1)
            store[nm] = pr
            ins[nm] = MI(nm + ".txt", common.int_array(S, [86400 * i for i in range(T)]), S.vector([0.0]),
                         common.locations(list(range(1, P + 1))), obs=obs.copy(), fcst=fc.copy(),
                         thresholds=S.const(layouts[nm]), threshold_scores=pr.copy())
        order = ["A", "B"] if S.choose("order", 2) == 0 else ["B", "A"]
        D = data.Data([ins[n] for n in order])
        S.prove("common-thresholds", [float(x) for x in D.thresholds] == [5.0])
        cells = list(np.ndindex(*shape))
        col = {"A": 1, "B": 0}
        first = S.choose("first-request", 2)
        res = {}
        for k in ([0, 1] if first == 0 else [1, 0]):
            res[order[k]] = D.get_scores(f.Threshold(5.0), k, ax.All(), None)
        for nm in ("A", "B"):
            S.observe("p5." + nm, res[nm])
        for c in cells:
            # a case is kept when both inputs have the probability
            present = S.and_(*[S.not_(S.isnan(store[n][c + (col[n],)])) for n in ("A", "B")])
            for nm in ("A", "B"):
                got = res[nm][c]
                S.prove("kept-iff-every-input-has-the-probability", S.iff(S.not_(S.isnan(got)), present), detail=nm)
                S.prove("probability-read-from-the-input's-own-column-of-that-threshold",
                        S.implies(present, S.same(got, store[nm][c + (col[nm],)])),
                        twin=S.implies(present, S.same(got, store[nm][c + (1 - col[nm],)])), detail="%s given as %s" % (nm, "+".join(order)))
    return fn


def h_ensemble_probability(T, P, M):
    """Two inputs with ensemble members and no stored thresholds: the probability
    of a threshold is the fraction of an input's *valid* members at or below it;
    a case where an input has no valid member (or no observation) has no
    probability and is dropped for every input."""
    def fn(S):
        data = load.modules["verif.data"]
        f = load.modules["verif.field"]
        ax = load.modules["verif.axis"]
        MI = common.input_class()
        shape = (T, 1, P)
        cells = list(np.ndindex(*shape))
        t = S.real("threshold")
        raw, ins = [], []
        for nm in ("A", "B"):
            obs = S.array(nm + ".obs", shape, nan=False)
            fc = S.array(nm + ".fcst", shape, nan=False)
            ens = S.array(nm + ".ens", shape + (M,), nan=False)
            if nm == "A":
                obs[cells[-1]] = S.real("A.obs?", nan=True)
                for m in range(M):
                    ens[cells[0] + (m,)] = S.real("A.ens?%d" % m, nan=True)     # the first case may lose any or all members
            raw.append((obs, ens))
            ins.append(MI(nm + ".txt", common.int_array(S, [86400 * i for i in range(T)]), S.vector([0.0]),
                          common.locations(list(range(1, P + 1))), obs=obs.copy(), fcst=fc.copy(), ensemble=ens.copy()))
        D = data.Data(ins)
        fld = f.Threshold(t)

        def prob(k, c):
            members = [raw[k][1][c + (m,)] for m in range(M)]
            n_valid = S.count(S.not_(S.isnan(e)) for e in members)
            below = S.count(S.and_(S.not_(S.isnan(e)), e <= t) for e in members)
            return n_valid, S.ite(n_valid == 0, float("nan"), S.div(below, n_valid))
        whole = [D.get_scores([f.Obs(), fld], k, ax.All(), None) for k in range(2)]
        for k in range(2):
            S.observe("obs%d" % k, whole[k][0])
            S.observe("p%d" % k, whole[k][1])
        kept_cells = []
        for c in cells:
            keep = S.and_(*[S.and_(S.not_(S.isnan(raw[k][0][c])), prob(k, c)[0] > 0) for k in range(2)])
            if bool(keep):
                kept_cells.append(c)
            for k in range(2):
                po, pp = whole[k][0][c], whole[k][1][c]
                S.prove("case-kept-iff-every-input-has-an-observation-and-a-valid-member",
                        S.and_(S.iff(S.not_(S.isnan(pp)), keep), S.iff(S.not_(S.isnan(po)), keep)),
                        twin=S.iff(S.not_(S.isnan(pp)), S.not_(keep)), detail="input %d" % k)
                S.prove("probability=fraction-of-the-valid-members-at-or-below-the-threshold",
                        S.implies(keep, S.same(pp, prob(k, c)[1])), twin=S.implies(keep, S.same(pp, prob(k, c)[1] + 1)), detail="input %d" % k)
        # the same cases, as pairs, for a score (axis No)
        for k in range(2):
            o, p = D.get_scores([f.Obs(), fld], k, ax.No(), None)
            oe, pe = S.elements(o), S.elements(p)
            if not kept_cells:
                S.prove("no-valid-case-gives-nan-not-a-number-from-placeholders", len(pe) == 1 and bool(S.isnan(pe[0])), detail="input %d" % k)
                continue
            S.prove("scored-on-exactly-the-kept-cases", len(pe) == len(kept_cells) and
                    bool(S.all(S.and_(S.same(a, raw[k][0][c]), S.same(b, prob(k, c)[1])) for a, b, c in zip(oe, pe, kept_cells))), detail="input %d" % k)
    return fn
