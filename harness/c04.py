"""C04 -- missing data never enters a score as a number.

(i)   Text._clean on a text token with symbolic value and not-a-number flag.
(ii)  util.clean on a NetCDF variable = symbolic masked array.
(iii) Through Data + Metric.compute: the score of a slice equals the score of
      the same data with the missing cases deleted; a slice without any valid
      case gives NaN; +-inf cells are treated as missing; never an exception."""
import numpy as np

from symx.explore import Harness
from symx import load
from harness import common
from harness import shared

BOUNDS = {
    "quick": {"clean": "variable of 3 values, each masked / NaN / -999 / >1e30 / ordinary", "token": "1 token",
              "metrics": "12 metrics x 3 axes on 2 inputs of 2x1x2 cells (real, NaN; one cell may be +-inf)"},
    "thorough": {"clean": "variables of 4 values and of shape 2x2", "token": "1 token",
                 "metrics": "12 metrics x 4 axes on 2 inputs of 2x2x1 cells"},
}
ASSUMPTIONS = ["a NetCDF variable is modelled as values + mask (what netCDF4 returns for fill/masked cells)",
               "cdf / quantile / ensemble / pit fields with missing values are decided in C08"]
STUBS = ["netCDF4 variable: object with .shape and [:] returning a masked array"]

METRICS = ["Mae", "Bias", "Rmse", "StdError", "Ef", "Dmb", "Obs", "Fcst", "Ets", "Pc", "N", "Within"]  # corr/nsec guards are non-linear in 4 pairs: C05 covers them


class FakeVar(object):
    """What util.clean needs from a netCDF4 variable."""
    def __init__(self, arr):
        self._arr = arr
        self.shape = arr.shape

    def __getitem__(self, key):
        return self._arr[key]


def h_token():
    def fn(S):
        inp = load.modules["verif.input"]
        tok, val, bad = S.token("cell", can_be_bad=True, nan=True)
        text = inp.Text.__new__(inp.Text)
        got = text._clean(tok)
        S.observe("cleaned", got)
        missing = S.or_(bad, S.isnan(val), val == -999)
        S.prove("text-token-missing-iff-nonnumeric-nan-or-999", S.iff(S.isnan(got), missing),
                twin=S.iff(S.isnan(got), S.not_(missing)))
        S.prove("text-token-value-kept", S.implies(S.not_(missing), S.same(got, val)),
                twin=S.implies(S.not_(missing), S.same(got, val + 1)))
    return fn


def h_clean(shape):
    def fn(S):
        util = load.modules["verif.util"]
        vals = S.array("v", shape, nan=True)
        n = int(np.prod(shape))
        inf_at = S.choose("inf_at", n + 1)       # one cell may be +inf or -inf
        inf_sign = S.choose("inf_sign", 2) if inf_at < n else 0
        flat_idx = list(np.ndindex(*shape))
        if S.symbolic:
            from symx.arrays import sa, ma_make
            raw = np.asarray(vals, dtype=object).copy()
            if inf_at < n:
                raw[flat_idx[inf_at]] = np.inf if inf_sign == 0 else -np.inf
            mask = np.empty(shape, dtype=object)
            for idx in flat_idx:
                mask[idx] = S.boolean("masked[%s]" % ",".join(map(str, idx)))
            arr = ma_make(sa(raw), sa(mask))
            values = {idx: raw[idx] for idx in flat_idx}
            masks = {idx: mask[idx] for idx in flat_idx}
        else:
            raw = np.array(vals, dtype=float)
            if inf_at < n:
                raw[flat_idx[inf_at]] = np.inf if inf_sign == 0 else -np.inf
            mask = np.zeros(shape, dtype=bool)
            for idx in flat_idx:
                mask[idx] = S.boolean("masked[%s]" % ",".join(map(str, idx)))
            arr = np.ma.masked_array(raw, mask=mask)
            values = {idx: raw[idx] for idx in flat_idx}
            masks = {idx: bool(mask[idx]) for idx in flat_idx}
        got = util.clean(FakeVar(arr))
        S.observe("cleaned", got)
        S.prove("clean.shape", tuple(got.shape) == tuple(shape))
        for idx in flat_idx:
            v = values[idx]
            missing = S.or_(masks[idx], S.isnan(v), v == -999, v > 1e30)
            S.prove("netcdf-missing-iff-masked-nan-999-or-huge", S.iff(S.isnan(got[idx]), missing),
                    twin=S.iff(S.isnan(got[idx]), S.not_(missing)))
            S.prove("netcdf-value-kept", S.implies(S.not_(missing), S.same(got[idx], v)),
                    twin=S.implies(S.not_(missing), S.same(got[idx], v + 1)))
        empty = util.clean(FakeVar(S.const(np.zeros(0))))
        S.prove("clean.empty", len(empty) == 0)
    return fn


def h_metrics(T, L, P, thorough):
    def fn(S):
        data = load.modules["verif.data"]
        metric = load.modules["verif.metric"]
        ax = load.modules["verif.axis"]
        util = load.modules["verif.util"]
        MI = common.input_class()
        shape = (T, L, P)
        times = [86400 * i for i in range(T)]
        lts = [0.0, 30.0][:L]
        k = S.choose("metric", len(METRICS))
        name = METRICS[k]
        axes = [(ax.No(), 1), (ax.Location(), P), (ax.Time(), T)] + ([(ax.Leadtime(), L)] if thorough else [])
        a = S.choose("axis", len(axes))
        axis, nslices = axes[a]
        cells = list(np.ndindex(*shape))
        inf_at = S.choose("inf_at", len(cells) + 1)
        ins, raw = [], []
        for nm in ("A", "B"):
            obs = S.array(nm + ".obs", shape)
            fcst = S.array(nm + ".fcst", shape)
            if nm == "A" and inf_at < len(cells):
                # one forecast cell of input A is +inf (an encoding that must be dropped, not scored)
                if S.symbolic:
                    fcst = fcst.copy()
                fcst[cells[inf_at]] = np.inf
            raw.append((obs.copy(), fcst.copy()))
            ins.append(MI(nm + ".txt", common.int_array(S, times), S.vector(lts), common.locations(list(range(1, P + 1))),
                          obs=obs, fcst=fcst))
        D = data.Data(ins)
        t = S.real("t")
        interval = util.get_intervals("above", S.vector([t]))[0] if name in ("Ets", "Pc", "N", "Within") else None
        m = getattr(metric, name)()
        got = m.compute(D, 0, axis, interval)
        S.observe("scores", got)
        S.prove("one-score-per-slice", len(got) == nslices)

        def in_slice(c, i):
            nm_ = axis.name()
            return nm_ == "No" or (nm_ == "Location" and c[2] == i) or (nm_ == "Time" and c[0] == i) or \
                (nm_ == "Leadtime" and c[1] == i)

        def ok(v):
            return S.and_(S.not_(S.isnan(v)), S.not_(S.isinf(v)))
        for i in range(nslices):
            o, f = [], []
            for c in cells:
                if not in_slice(c, i):
                    continue
                need = [raw[0][0][c], raw[1][0][c]]            # obs of every input
                if name != "Obs":
                    need += [raw[0][1][c], raw[1][1][c]]       # fcst of every input
                if bool(S.all(ok(v) for v in need)):
                    o.append(raw[0][0][c])
                    f.append(raw[0][1][c])
            tag = "%s/%s" % (name, axis.name())
            if name == "Fcst":
                # forecast statistic needs only the forecasts
                o, f = [], []
                for c in cells:
                    if in_slice(c, i) and bool(S.all(ok(v) for v in (raw[0][1][c], raw[1][1][c]))):
                        f.append(raw[0][1][c])
                        o.append(raw[0][1][c])
            if len(o) == 0:
                S.prove("no-valid-case-gives-nan", S.isnan(got[i]), twin=S.not_(S.isnan(got[i])), detail=tag)
                continue
            # score of the data with the missing cases physically deleted, computed by the
            # same metric on the shortened vectors (its formula is C05's subject)
            if name in ("Obs", "Fcst"):
                want = S.div(S.sum(o if name == "Obs" else f), len(o))
            elif name in ("Ets", "Pc", "N", "Within"):
                want = getattr(metric, name)().compute_from_obs_fcst(S.vector(o), S.vector(f), interval)
            else:
                want = getattr(metric, name)().compute_from_obs_fcst(S.vector(o), S.vector(f))
            S.prove("equals-score-of-deleted-data", S.same(got[i], want),
                    twin=S.same(got[i], want + 1), detail=tag)
    return fn


def harnesses(tier):
    thorough = tier == "thorough"
    hs = [
        Harness("text_token", h_token(), "Text._clean on a symbolic token"),
        Harness("netcdf_clean", h_clean((3,)), "util.clean on a symbolic masked variable"),
        Harness("ensemble_missing", shared.h_ensemble_probability(2, 1, 2), "a probability derived from an ensemble whose members are all missing is missing"),
        Harness("metrics_via_data", h_metrics(2, 2 if thorough else 1, 1 if thorough else 2, thorough),
                "Metric.compute over Data with missing and infinite cells"),
    ]
    if thorough:
        hs.append(Harness("netcdf_clean_2d", h_clean((2, 2)), "util.clean on a 2x2 variable"))
    return hs
