"""C09 -- text input files are read faithfully.

Kernel: verif.input.Text.__init__ (header classification, row parsing into
coordinate-keyed dictionaries, densification), _clean, the four _get_*_fields
helpers, _get_variable.  A file is a concrete list of lines whose numeric cells
are symbolic tokens (DESIGN 2.2): `open` is shadowed in verif.input under the
engine, and a real temporary file is written for the replay on the unmodified
code."""
import os
import tempfile

import numpy as np

from symx.explore import Harness
from symx import load
from symx import values as V
from harness.c11 import valid_date

BOUNDS = {
    "quick": {"rows": 2, "header layouts": 7, "cells": "every numeric cell symbolic; obs cells may be non-numeric / NaN / -999"},
    "thorough": {"rows": "2 (all 7 layouts) and 3 (layouts shuffled, metadata, noloc)", "header layouts": 7, "cells": "same"},
}
ASSUMPTIONS = ["coordinate and location-metadata cells are numeric and not the literal -999; obs cells keep every missing-value "
               "encoding (non-numeric, NaN, -999), the other data cells are ordinary numbers",
               "date cells are valid YYYYMMDD dates in a 5-day window around 2024-01-01, hour cells whole hours 0..23",
               "location ids are integers 0..20, lead times / unixtimes are non-negative"]
ASSUMPTIONS.append("numbers formatted into warning messages are not observed (a representative model value is printed)")
STUBS = ["builtin open() is shadowed in verif.input by an in-memory file of symbolic tokens (the replay writes a real file)"]


class SymLine(str):
    """A text line whose whitespace-separated words may be symbolic tokens."""
    words = ()

    def __new__(cls, words):
        s = str.__new__(cls, " ".join(str(w) for w in words))
        s.words = list(words)
        return s

    def split(self, *a, **k):
        return list(self.words)


class FakeFile(object):
    def __init__(self, lines):
        self._lines = lines

    def __iter__(self):
        return iter(self._lines)

    def close(self):
        pass


LAYOUTS = [
    ("full", ["unixtime", "leadtime", "location", "lat", "lon", "elev", "obs", "fcst"], []),
    ("datehour", ["date", "hour", "offset", "id", "altitude", "obs", "fcst"], []),
    ("prob", ["location", "obs", "fcst", "p10", "q0.9", "e0", "e1", "pit", "extra"], []),
    ("shuffled", ["fcst", "obs", "leadtime", "unixtime", "location"], []),
    ("metadata", ["unixtime", "location", "obs", "fcst"],
     ["# variable: Air temperature", "# units: K", "# x0: 0", "# x1: 100", "# some other comment"]),
    ("noloc", ["unixtime", "leadtime", "obs", "fcst"], []),
    ("fcstonly", ["unixtime", "leadtime", "location", "fcst", "q0.5", "q0.1"], []),
]


ROWS3 = ("shuffled", "metadata", "noloc")


def make_cell(S, col, r):
    """(token, value, bad) for column `col` of row r."""
    name = "%s[%d]" % (col, r)
    if col == "date":
        tok, v, bad = S.token(name, integer=True)
        S.assume(S.and_(v >= 20231230, v <= 20240103))
        S.assume(valid_date(S, v))
        return tok, v, False
    if col == "hour":
        tok, v, bad = S.token(name, integer=True)
        S.assume(S.and_(v >= 0, v <= 23))
        return tok, v, False
    if col in ("location", "id"):
        tok, v, bad = S.token(name, integer=True)
        S.assume(S.and_(v >= 0, v <= 20))
        return tok, v, False
    if col == "unixtime":
        tok, v, bad = S.token(name, integer=True)
        S.assume(S.and_(v >= 0, v <= 10 * 86400))
        return tok, v, False
    if col in ("leadtime", "offset"):
        tok, v, bad = S.token(name)
        S.assume(S.and_(v >= 0, v <= 240))
        return tok, v, False
    if col in ("lat", "lon", "elev", "altitude"):
        tok, v, bad = S.token(name)
        S.assume(S.and_(v >= -90, v <= 90, v != -999))
        return tok, v, False
    if col == "obs":
        return S.token(name, can_be_bad=True, nan=True)
    # other data cells: ordinary numbers (the missing-value encodings are exercised on the obs column)
    tok, v, bad = S.token(name)
    S.assume(v != -999)
    return tok, v, False


def cleaned(S, v, bad):
    """What a data cell must be stored as."""
    return S.ite(S.or_(bad, S.isnan(v), v == -999), float("nan"), v)


def h_text(rows, only=None):
    menu = [l for l in LAYOUTS if only is None or l[0] in only]

    def fn(S):
        inp = load.modules["verif.input"]
        S.messages_may_format_numbers()      # the conflicting-metadata warning formats lat/lon/elev with %f
        li = S.choose("layout", len(menu))
        lname, header, meta = menu[li]
        cells = []          # per row: dict col -> (token, value, bad)
        for r in range(rows):
            cells.append({col: make_cell(S, col, r) for col in header})
        if S.symbolic:
            lines = [SymLine([m]) if False else m + "\n" for m in meta]
            lines.append(SymLine(header))
            for r in range(rows):
                lines.append(SymLine([cells[r][col][0] for col in header]))
            load.rebind_global(inp, "open", lambda *a, **k: FakeFile(lines))
            path = "/in-memory/test.txt"
            t = inp.Text(path)
        else:
            fd, path = tempfile.mkstemp(suffix=".txt", prefix="c09-")
            try:
                with os.fdopen(fd, "w") as fobj:
                    for m in meta:
                        fobj.write(m + "\n")
                    fobj.write(" ".join(header) + "\n")
                    for r in range(rows):
                        fobj.write(" ".join(cells[r][col][0] for col in header) + "\n")
                t = inp.Text(path)
            finally:
                os.unlink(path)

        def val(r, col):
            return cells[r][col][1]
        # coordinates of each row as the format documents them
        def row_time(r):
            if "date" in header:
                d = val(r, "date")
                y, m, dd = d // 10000, (d // 100) % 100, d % 100
                import datetime as real_dt
                base = None
                for cand in range(-3, 4):       # window 2023-12-30 .. 2024-01-03
                    dt = real_dt.date(2024, 1, 1) + real_dt.timedelta(days=cand)
                    code = dt.year * 10000 + dt.month * 100 + dt.day
                    secs = (dt - real_dt.date(1970, 1, 1)).days * 86400
                    base = secs if base is None else S.ite(d == code, secs, base)
                return base + val(r, "hour") * 3600
            if "unixtime" in header:
                return val(r, "unixtime")
            return 0

        def row_lead(r):
            for c in ("leadtime", "offset"):
                if c in header:
                    return val(r, c)
            return 0

        def row_id(r):
            for c in ("location", "id"):
                if c in header:
                    return val(r, c)
            return None
        T = [row_time(r) for r in range(rows)]
        Ld = [row_lead(r) for r in range(rows)]
        Id = [row_id(r) for r in range(rows)]

        def distinct_sorted(vals):
            out = []
            for v in vals:
                if any(bool(v == u) for u in out):
                    continue
                pos = len(out)
                while pos > 0 and bool(v < out[pos - 1]):
                    pos -= 1
                out.insert(pos, v)
            return out
        want_times = distinct_sorted(T)
        want_leads = distinct_sorted(Ld)
        gt, gl = list(t.times), list(t.leadtimes)
        S.observe("times", gt)
        S.observe("leadtimes", gl)
        S.prove("times=sorted-distinct-row-times", len(gt) == len(want_times) and bool(S.all(S.same(a, b) for a, b in zip(gt, want_times))),
                detail=lname)
        S.prove("leadtimes=sorted-distinct-row-leadtimes", len(gl) == len(want_leads) and bool(S.all(S.same(a, b) for a, b in zip(gl, want_leads))),
                detail=lname)
        # locations: one per distinct id, metadata of the first row carrying it
        if Id[0] is not None:
            first_rows = []
            for r in range(rows):
                if not any(bool(Id[r] == Id[q]) for q in first_rows):
                    first_rows.append(r)
            S.prove("one-location-per-distinct-id", len(t.locations) == len(first_rows), detail=lname)
            for r in first_rows:
                match = [loc for loc in t.locations if bool(loc.id == Id[r])]
                S.prove("location-present", len(match) == 1, detail=lname)
                if len(match) == 1:
                    loc = match[0]
                    for col, attr in (("lat", "lat"), ("lon", "lon"), ("elev", "elev"), ("altitude", "elev")):
                        if col in header:
                            S.prove("location-metadata-from-first-row-with-the-id", S.same(getattr(loc, attr), val(r, col)),
                                    twin=S.same(getattr(loc, attr), val(r, col) + 1), detail="%s/%s" % (lname, col))
        else:
            S.prove("single-anonymous-location", len(t.locations) == 1, detail=lname)

        def loc_index(r):
            if Id[r] is None:
                return 0
            for i, loc in enumerate(t.locations):
                if bool(loc.id == Id[r]):
                    return i
            return None

        def expected(field_col, d, o, s):
            """cell (d, o, s) of a field: the last row with these coordinates, else missing."""
            out = float("nan")
            for r in range(rows):
                here = S.and_(S.same(T[r], gt[d]), S.same(Ld[r], gl[o]), True if Id[r] is None else (t.locations[s].id == Id[r]))
                tok, v, bad = cells[r][field_col]
                out = S.ite(here, cleaned(S, v, bad), out)
            return out
        fields = []
        if "obs" in header:
            fields.append(("obs", t.obs))
        if "fcst" in header:
            fields.append(("fcst", t.fcst))
        if "pit" in header:
            fields.append(("pit", t.pit))
        if "extra" in header:
            S.prove("other-columns-listed", "extra" in list(t.other_fields), detail=lname)
            fields.append(("extra", t.other_score("extra")))
        if "obs" not in header:
            S.prove("absent-obs-is-None", t.obs is None, detail=lname)
        shape = (len(gt), len(gl), len(t.locations))
        for col, arr in fields:
            S.prove("field-shape", arr is not None and tuple(arr.shape) == shape, detail="%s/%s" % (lname, col))
            if arr is None or tuple(arr.shape) != shape:
                continue
            # the order of the locations of a Text input is that of a set of Location objects (hash order):
            # observe the array in the order in which the ids first appear in the rows
            perm = [loc_index(r) for r in first_rows] if Id[0] is not None else list(range(shape[2]))
            S.observe(col, [arr[d, o, s] for d in range(shape[0]) for o in range(shape[1]) for s in perm if s is not None])
            for d in range(shape[0]):
                for o in range(shape[1]):
                    for s in range(shape[2]):
                        w = expected(col, d, o, s)
                        S.prove("value-at-its-own-coordinate", S.same(arr[d, o, s], w), twin=S.same(arr[d, o, s], w + 1),
                                detail="%s/%s" % (lname, col))
        # probabilistic columns: thresholds / quantiles / members recognised with their numeric values
        def numbers(prefix, exclude=()):
            return sorted(float(w[1:]) for w in header if w[0] == prefix and w not in exclude and _isnum(w[1:]))
        S.prove("thresholds-from-p-columns", sorted(float(x) for x in t.thresholds) == numbers("p", ("pit",)), detail=lname)
        S.prove("quantiles-from-q-columns", sorted(float(x) for x in t.quantiles) == numbers("q"), detail=lname)
        S.prove("members-from-e-columns", sorted(float(x) for x in t.members) == numbers("e", ("elev", "extra")), detail=lname)
        for prefix, arr4, listed in (("p", t.threshold_scores, list(t.thresholds)), ("q", t.quantile_scores, list(t.quantiles)),
                                     ("e", t.ensemble, list(t.members))):
            for k, num in enumerate(listed):
                cols = [w for w in header if w[0] == prefix and w not in ("pit", "elev", "extra") and _isnum(w[1:]) and float(w[1:]) == float(num)]
                if len(cols) != 1:
                    continue
                for d in range(shape[0]):
                    for o in range(shape[1]):
                        for s in range(shape[2]):
                            w = expected(cols[0], d, o, s)
                            S.prove("probabilistic-column-at-its-own-coordinate", S.same(arr4[d, o, s, k], w),
                                    twin=S.same(arr4[d, o, s, k], w + 1), detail="%s/%s" % (lname, cols[0]))
        if meta:
            v = t.variable
            S.prove("metadata-lines-set-the-variable", v.name == "Air temperature" and v.units == "K" and
                    float(v.x0) == 0.0 and float(v.x1) == 100.0, detail=lname)
        else:
            S.prove("default-variable", t.variable.name == "Unknown variable" and t.variable.x0 is None, detail=lname)
    return fn


def _isnum(s):
    try:
        float(s)
        return True
    except ValueError:
        return False


def harnesses(tier):
    hs = [Harness("text", h_text(2), "Text.__init__ on 2 symbolic rows x 7 header layouts")]
    if tier == "thorough":
        hs.append(Harness("text.rows3", h_text(3, ROWS3), "Text.__init__ on 3 symbolic rows x %d header layouts" % len(ROWS3)))
    return hs
