"""C18 -- query results are independent of query history and repeatable.

Kernel: Data.get_scores (request cache), _get_score (per-input field cache,
in-place propagation, obs range), _apply_axis, under sequences of requests.
Oracle: the last request of a sequence returns what a freshly built Data
returns for it; arrays returned earlier still equal their snapshots; the input
objects' arrays are untouched; repeating a request gives the same result."""
import numpy as np

from symx.explore import Harness
from symx import load
from harness import common

BOUNDS = {
    "quick": {"dataset": "2 inputs, 2 times x 1 lead time x 2 locations, obs/fcst/other real-or-NaN",
              "sequences": "all 36 sequences of length 2 over a menu of 6 requests; with and without -obsrange; with a climatology; with -T 12 (sum over two lead times)"},
    "thorough": {"dataset": "2 inputs, 2 x 1 x 2 (length 2) and 2 x 1 x 1 (length 3)",
                 "sequences": "all 100 sequences of length 2 and all 1000 of length 3 over a menu of 10 requests"},
}
ASSUMPTIONS = ["stored values are real numbers or NaN", "obs range end points are finite reals with lo <= hi"]
STUBS = ["inputs are in-memory verif.input.Input subclasses"]


def menu(P, n):
    ax = load.modules["verif.axis"]
    f = load.modules["verif.field"]
    O, F, X = f.Obs(), f.Fcst(), f.Other("extra")
    m = [
        ("[obs,fcst]/in0/All", [O, F], 0, ax.All(), None),
        ("obs/in0/All", O, 0, ax.All(), None),
        ("[obs,fcst]/in1/No", [O, F], 1, ax.No(), None),
        ("fcst/in0/Time0", F, 0, ax.Time(), 0),
        ("[obs,fcst,extra]/in0/Loc", [O, F, X], 0, ax.Location(), P - 1),
        ("obs/in1/No", O, 1, ax.No(), None),
        ("[extra]/in1/All", [X], 1, ax.All(), None),
        ("fcst/in1/All", F, 1, ax.All(), None),
        ("[obs,fcst]/in0/No", [O, F], 0, ax.No(), None),
        ("obs/in0/Leadtime0", O, 0, ax.Leadtime(), 0),
    ]
    return m[:n]


def as_list(res):
    return res if isinstance(res, list) else [res]


def h_history(T, P, length, nmenu, with_clim=False, with_T=False):
    def fn(S):
        data = load.modules["verif.data"]
        aggmod = load.modules["verif.aggregator"]
        axmod = load.modules["verif.axis"]
        MI = common.input_class()
        times = [86400 * i for i in range(T)]
        L = 2 if with_T else 1
        lts = [0.0, 6.0][:L]
        shape = (T, L, P)
        base = {}
        for nm in ("A", "B"):
            base[nm] = {f: S.array("%s.%s" % (nm, f), shape) for f in ("obs", "fcst", "extra")}
        clim_type = [None, "subtract"][S.choose("clim", 2)] if with_clim else None
        use_range = S.choose("obsrange", 2) if clim_type is None else 0
        obs_range = None
        if use_range:
            lo, hi = S.real("lo"), S.real("hi")
            S.assume(lo <= hi)
            obs_range = [lo, hi]

        def build():
            ins = []
            kept = []
            for nm in ("A", "B"):
                arrs = {f: base[nm][f].copy() for f in base[nm]}
                kept.append(arrs)
                ins.append(MI(nm + ".txt", common.int_array(S, times), S.vector(lts),
                              common.locations(list(range(1, P + 1))),
                              obs=arrs["obs"], fcst=arrs["fcst"], others={"extra": arrs["extra"]}))
            if clim_type is not None:
                xarr = clim_base.copy()
                X = MI("X.txt", common.int_array(S, times), S.vector(lts), common.locations(list(range(1, P + 1))),
                       obs=xarr.copy(), fcst=xarr, others={"extra": xarr.copy()})
                return data.Data(ins, clim=X, clim_type=clim_type), kept
            if with_T:
                # -T 12 -Tagg sum: every field is pre-aggregated over a trailing window of two lead times
                return data.Data(ins, obs_range=obs_range, dim_agg_length=12, dim_agg_axis=axmod.Leadtime(),
                                 dim_agg_method=aggmod.Sum()), kept
            return data.Data(ins, obs_range=obs_range), kept

        clim_base = S.array("X.fcst", shape, nan=False) if clim_type is not None else None
        D, kept = build()
        m = menu(P, nmenu)
        seq = [S.choose("req%d" % i, len(m)) for i in range(length)]
        results, snaps = [], []
        for r in seq:
            name, fields, k, axis, idx = m[r]
            res = D.get_scores(fields, k, axis, idx)
            results.append(res)
            snaps.append([list(S.elements(a)) for a in as_list(res)])
        name, fields, k, axis, idx = m[seq[-1]]
        tag = name
        hist = "+".join(m[r][0] for r in seq[:-1])
        Dfresh, _ = build()
        fresh = as_list(Dfresh.get_scores(fields, k, axis, idx))
        last = as_list(results[-1])
        S.observe("last", [S.elements(a) for a in last])
        # the verdict is about the state after the whole sequence: compare the snapshot taken
        # when the last result was returned with the fresh dataset's answer
        ok = len(last) == len(fresh) and all(len(x) == len(S.elements(y)) for x, y in zip(snaps[-1], fresh))
        S.prove("same-shape-as-fresh", ok, detail="%s after %s" % (tag, hist))
        if ok:
            S.prove("same-as-fresh-dataset",
                    S.all(S.same(x, y) for sx, fy in zip(snaps[-1], fresh) for x, y in zip(sx, S.elements(fy))),
                    twin=S.same(snaps[-1][0][0], S.elements(fresh[0])[0] + 1), detail="%s after %s" % (tag, hist))
        # arrays returned earlier are never altered by later requests
        for i in range(length - 1):
            now = [list(S.elements(a)) for a in as_list(results[i])]
            S.prove("earlier-result-unaltered",
                    S.all(S.same(x, y) for sn, nw in zip(snaps[i], now) for x, y in zip(sn, nw)),
                    detail="%s then %s" % (m[seq[i]][0], "+".join(m[r][0] for r in seq[i + 1:])))
        # the same request again gives the same answer
        again = as_list(D.get_scores(fields, k, axis, idx))
        S.prove("repeatable", S.all(S.same(x, y) for sx, ay in zip(snaps[-1], again) for x, y in zip(sx, S.elements(ay))),
                detail=tag)
        # the input objects' data are left unmodified
        for arrs, nm in zip(kept, ("A", "B")):
            for f in arrs:
                S.prove("inputs-unmodified", S.same_arrays(arrs[f], base[nm][f]))
    return fn


def h_history_fields(length):
    """Sequences over *different kinds of field with equal parameters*: a threshold probability and a quantile
    with the same numerical value (p0.5 and q0.5), an extra field, obs.  The caches are keyed by field: the last
    request returns what a fresh dataset returns."""
    def fn(S):
        data = load.modules["verif.data"]
        ax = load.modules["verif.axis"]
        f = load.modules["verif.field"]
        MI = common.input_class()
        shape = (2, 1, 1)
        obs, fcst = S.array("A.obs", shape), S.array("A.fcst", shape)
        p = S.array("A.p", shape + (1,))
        q = S.array("A.q", shape + (1,))

        def build():
            return data.Data([MI("A.txt", common.int_array(S, [0, 86400]), S.vector([0.0]), common.locations([1]),
                                 obs=obs.copy(), fcst=fcst.copy(), thresholds=S.const([0.5]), threshold_scores=p.copy(),
                                 quantiles=S.const([0.5]), quantile_scores=q.copy())])
        O, TH, QU = f.Obs(), f.Threshold(0.5), f.Quantile(0.5)
        m = [("p0.5/No", TH, ax.No(), None), ("q0.5/No", QU, ax.No(), None), ("[obs,p0.5]/All", [O, TH], ax.All(), None),
             ("[obs,q0.5]/All", [O, QU], ax.All(), None), ("[q0.5,p0.5]/Time0", [QU, TH], ax.Time(), 0)]
        D = build()
        seq = [S.choose("req%d" % i, len(m)) for i in range(length)]
        snap = None
        for r in seq:
            name, fields, axis, idx = m[r]
            snap = [list(S.elements(a)) for a in as_list(D.get_scores(fields, 0, axis, idx))]
        name, fields, axis, idx = m[seq[-1]]
        hist = "+".join(m[r][0] for r in seq[:-1])
        fresh = as_list(build().get_scores(fields, 0, axis, idx))
        S.observe("last", snap)
        ok = len(snap) == len(fresh) and all(len(x) == len(S.elements(y)) for x, y in zip(snap, fresh))
        S.prove("same-shape-as-fresh", ok, detail="%s after %s" % (name, hist))
        if ok:
            S.prove("same-as-fresh-dataset", S.all(S.same(x, y) for sx, fy in zip(snap, fresh) for x, y in zip(sx, S.elements(fy))),
                    twin=S.same(snap[0][0], S.elements(fresh[0])[0] + 1), detail="%s after %s" % (name, hist))
        # and the fresh answer is the stored column of that kind
        want = {"p0.5": p, "q0.5": q}
        if name in ("p0.5/No", "q0.5/No"):
            col = want[name.split("/")[0]]
            cells = [c for c in np.ndindex(*shape) if not bool(S.isnan(col[c + (0,)]))]
            if cells and len(snap[0]) == len(cells):
                S.prove("field-of-its-own-kind", S.all(S.same(x, col[c + (0,)]) for x, c in zip(snap[0], cells)), detail=name)
    return fn


def harnesses(tier):
    if tier == "thorough":
        return [
            Harness("history.len2", h_history(2, 2, 2, 10), "all sequences of 2 requests over the 10-request menu"),
            Harness("history.len3", h_history(2, 1, 3, 10), "all sequences of 3 requests, one location"),
            Harness("history.clim", h_history(2, 2, 2, 10, with_clim=True), "sequences of 2 requests with a climatology"),
            Harness("history.T", h_history(1, 2, 2, 10, with_T=True), "sequences of 2 requests with -T pre-aggregation over two lead times"),
            Harness("history.fields", h_history_fields(3), "sequences of 3 requests over threshold / quantile fields with equal parameters"),
        ]
    return [Harness("history.len2", h_history(2, 2, 2, 6), "all sequences of 2 requests over a 6-request menu"),
            Harness("history.clim", h_history(1, 2, 2, 6, with_clim=True), "the same with a climatology (anomalies), 1 time x 2 locations"),
            Harness("history.T", h_history(1, 1, 2, 6, with_T=True), "the same with -T pre-aggregation over two lead times, 1 time x 1 location"),
            Harness("history.fields", h_history_fields(2), "sequences of 2 requests over threshold / quantile fields with equal parameters (p0.5, q0.5)")]
