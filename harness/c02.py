"""C02 -- values are matched by coordinates, not by position or file order.

Kernel: Data._get_common_indices, the three sequential fancy-index statements
of _get_score, _get_times/_leadtimes/_locations, Data.__init__.
One dimension at a time is symbolic: input A lists a_1..a_p, input B lists
b_1..b_q as arbitrary symbolic coordinates -- any order, duplicates (and NaN for
lead times) allowed.  Oracle: the verified coordinates are the strictly
ascending NaN-free values occurring in every input; the cell used for input j
at coordinate tau is the one j stores at the first index holding tau; an empty
intersection ends in an error exit; swapping the inputs swaps the columns."""
import numpy as np

from symx.explore import Harness
from symx import load
from harness import common
from harness import shared

BOUNDS = {
    "quick": {"entries per input": "2 + 2 (location ids, lead times, times), also 2 + 1", "other dims": "singletons"},
    "thorough": {"entries per input": "3 + 3 and 3 + 2", "other dims": "singletons"},
}
ASSUMPTIONS = ["text_rows: no two rows share (time, lead time, location); rows of one location carry the same latitude", "location ids (0..10^7) and times are integers; lead times are reals or NaN", "times lie in a 3-day window (calendar model forks per day)"]
STUBS = ["inputs are in-memory verif.input.Input subclasses (text rows keyed by coordinates: C09)"]


def sym_coords(S, dim, name, n):
    if dim == "location":
        return [S.integer("%s.id%d" % (name, i), lo=0, hi=10 ** 7) for i in range(n)]
    if dim == "time":
        return [S.integer("%s.t%d" % (name, i), lo=0, hi=3 * 86400 - 1) for i in range(n)]
    return [S.real("%s.lt%d" % (name, i), nan=True, lo=0, hi=240) for i in range(n)]


def build(S, dim, name, coords):
    MI = common.input_class()
    n = len(coords)
    shape = {"time": (n, 1, 1), "leadtime": (1, n, 1), "location": (1, 1, n)}[dim]
    fcst = S.array(name + ".fcst", shape, nan=False)
    obs = S.array(name + ".obs", shape, nan=False)
    times = common.int_array(S, coords if dim == "time" else [0])
    lts = S.vector(coords if dim == "leadtime" else [0.0])
    locs = common.locations(coords if dim == "location" else [7])
    cells = list(S.elements(fcst))
    return MI(name + ".txt", times, lts, locs, obs=obs, fcst=fcst), cells


def expected_common(S, lists):
    """strictly ascending NaN-free values present in every list (forks)."""
    first = [v for v in lists[0] if not bool(S.isnan(v))]
    common_vals = []
    for v in first:
        if any(bool(v == u) for u in common_vals):
            continue
        if all(any(bool(v == w) for w in other) for other in lists[1:]):
            common_vals.append(v)
    out = []
    for v in common_vals:            # insertion sort, ascending
        pos = len(out)
        while pos > 0 and bool(v < out[pos - 1]):
            pos -= 1
        out.insert(pos, v)
    return out


def first_index(S, values, tau):
    for i, v in enumerate(values):
        if bool(v == tau):
            return i
    return None


def h_match(dim, p, q):
    def fn(S):
        data = load.modules["verif.data"]
        f = load.modules["verif.field"]
        ax = load.modules["verif.axis"]
        ca = sym_coords(S, dim, "A", p)
        cb = sym_coords(S, dim, "B", q)
        A, cells_a = build(S, dim, "A", ca)
        B, cells_b = build(S, dim, "B", cb)
        D, code = common.catch_exit(data.Data, [A, B])
        want = expected_common(S, [ca, cb])
        if code is not None:
            S.prove("error-exit-only-when-nothing-in-common", len(want) == 0 and code != 0, detail=dim)
            return
        S.prove("no-dataset-from-an-empty-intersection", len(want) > 0, detail=dim)
        if not want:
            return
        if dim == "time":
            got = list(D.times)
        elif dim == "leadtime":
            got = list(D.leadtimes)
        else:
            got = [loc.id for loc in D.locations]
        S.observe("coords", got)
        S.prove("verified-%ss-ascending-unique-common" % dim,
                len(got) == len(want) and bool(S.all(S.same(g, w) for g, w in zip(got, want))),
                twin=len(got) == len(want) and bool(S.same(got[0], want[0] + 1)))
        if len(got) != len(want):
            return
        for j, (coords, cells) in enumerate(((ca, cells_a), (cb, cells_b))):
            arr = S.elements(D.get_scores(f.Fcst(), j, ax.All(), None))
            S.prove("array-length", len(arr) == len(want))
            for k, tau in enumerate(want):
                i = first_index(S, coords, tau)
                S.prove("value-at-own-coordinate=%s" % dim, S.same(arr[k], cells[i]), twin=S.same(arr[k], cells[i] + 1),
                        detail="input %d" % j)
        # the order of the files only permutes the columns
        D2 = data.Data([B, A])
        for j in range(2):
            a1 = D.get_scores(f.Fcst(), j, ax.All(), None)
            a2 = D2.get_scores(f.Fcst(), 1 - j, ax.All(), None)
            S.prove("input-order-only-permutes-columns", S.same_arrays(a1, a2), detail=dim)
    return fn


def h_permute(dim, n):
    """Reordering one input's dimension entries (and its data accordingly)
    leaves every score unchanged."""
    import itertools

    def fn(S):
        data = load.modules["verif.data"]
        metric = load.modules["verif.metric"]
        ax = load.modules["verif.axis"]
        MI = common.input_class()
        base = {"location": [3, 8, 5], "time": [0, 86400, 2 * 86400], "leadtime": [0.0, 6.0, 30.0]}[dim][:n]
        perms = list(itertools.permutations(range(n)))
        pi = perms[S.choose("perm", len(perms))]
        shape = {"time": (n, 1, 1), "leadtime": (1, n, 1), "location": (1, 1, n)}[dim]
        axisnum = {"time": 0, "leadtime": 1, "location": 2}[dim]
        obs = S.array("obs", shape)
        fcst = S.array("fcst", shape)

        def mk(order):
            coords = [base[i] for i in order]
            o = np.take(obs, list(order), axis=axisnum)
            fc = np.take(fcst, list(order), axis=axisnum)
            return MI("A.txt", common.int_array(S, coords if dim == "time" else [0]),
                      S.vector(coords if dim == "leadtime" else [0.0]),
                      common.locations(coords if dim == "location" else [7]), obs=o, fcst=fc)
        D1 = data.Data([mk(range(n))])
        D2 = data.Data([mk(pi)])
        for name in ("Mae", "Bias"):
            m = getattr(metric, name)()
            s1 = m.compute(D1, 0, ax.No(), None)[0]
            s2 = m.compute(D2, 0, ax.No(), None)[0]
            S.observe(name, s1)
            S.prove("score-unchanged-by-reordering-%s-entries" % dim, S.same(s1, s2), twin=S.same(s1, s2 + 1))
        ax_obj = {"time": ax.Time(), "leadtime": ax.Leadtime(), "location": ax.Location()}[dim]
        v1 = metric.Mae().compute(D1, 0, ax_obj, None)
        v2 = metric.Mae().compute(D2, 0, ax_obj, None)
        S.prove("per-slice-scores-unchanged", S.same_arrays(v1, v2))
    return fn


def h_text_rows(rows):
    """Rows of a text file are keyed by their coordinates: any row order gives
    the same dataset (Text reader + Data), as long as no two rows share a key."""
    import itertools

    def fn(S):
        from harness import c09
        inp = load.modules["verif.input"]
        data = load.modules["verif.data"]
        f = load.modules["verif.field"]
        ax = load.modules["verif.axis"]
        S.messages_may_format_numbers()
        header = ["unixtime", "leadtime", "location", "lat", "fcst", "extra"]
        cells = [{col: c09.make_cell(S, col, r) for col in header} for r in range(rows)]
        # distinct (time, leadtime, location) keys
        for a in range(rows):
            for b in range(a + 1, rows):
                S.assume(S.not_(S.and_(*[cells[a][c][1] == cells[b][c][1] for c in ("unixtime", "leadtime", "location")])))
                # consistent metadata: rows of one location carry the same latitude
                S.assume(S.implies(cells[a]["location"][1] == cells[b]["location"][1], cells[a]["lat"][1] == cells[b]["lat"][1]))
        perms = list(itertools.permutations(range(rows)))
        pi = perms[1 + S.choose("perm", len(perms) - 1)]

        def read(order):
            import os
            import tempfile
            if S.symbolic:
                lines = [c09.SymLine(header)] + [c09.SymLine([cells[r][col][0] for col in header]) for r in order]
                load.rebind_global(inp, "open", lambda *a, **k: c09.FakeFile(lines))
                return inp.Text("/in-memory/rows.txt")
            fd, path = tempfile.mkstemp(suffix=".txt", prefix="c02-")
            try:
                with os.fdopen(fd, "w") as fo:
                    fo.write(" ".join(header) + "\n")
                    for r in order:
                        fo.write(" ".join(cells[r][col][0] for col in header) + "\n")
                return inp.Text(path)
            finally:
                os.unlink(path)
        D1 = data.Data([read(range(rows))])
        D2 = data.Data([read(pi)])
        S.prove("same-dimensions", [float(x) for x in []] == [] and len(D1.times) == len(D2.times) and len(D1.leadtimes) == len(D2.leadtimes)
                and [l.id for l in D1.locations] == [l.id for l in D2.locations] if not S.symbolic else
                (len(D1.times) == len(D2.times) and len(D1.leadtimes) == len(D2.leadtimes) and len(D1.locations) == len(D2.locations)))
        for fld, nm in ((f.Fcst(), "fcst"), (f.Other("extra"), "extra")):
            a1 = D1.get_scores(fld, 0, ax.All(), None)
            a2 = D2.get_scores(fld, 0, ax.All(), None)
            S.observe(nm, a1)
            S.prove("row-order-does-not-matter", S.same_arrays(a1, a2), detail=nm)
        S.prove("location-metadata-follows-the-id",
                S.all(S.same(x.lat, y.lat) for x, y in zip(D1.locations, D2.locations)))
    return fn


def harnesses(tier):
    thorough = tier == "thorough"
    p, q = (3, 3) if thorough else (2, 2)
    hs = [Harness("text_rows", h_text_rows(3 if thorough else 2), "permuted rows of a text file give the same dataset")]
    hs.append(Harness("threshold_layouts", shared.h_threshold_layouts(2, 1), "inputs storing different threshold columns: each reads its own column"))
    for dim in ("location", "leadtime", "time"):
        hs.append(Harness("match.%s" % dim, h_match(dim, p, q), "symbolic %s coordinates, %d + %d entries" % (dim, p, q)))
        hs.append(Harness("match.%s.uneven" % dim, h_match(dim, p, q - 1), "symbolic %s coordinates, %d + %d entries" % (dim, p, q - 1)))
        hs.append(Harness("permute.%s" % dim, h_permute(dim, 3), "all permutations of 3 %s entries" % dim))
    return hs
