"""C19 -- documented metric / axis / output combinations never crash (partial).

Kernel: verif.driver.run from the argument loop to the text/csv writers, with
the real Data, the real metric objects, Standard._get_x_y and Output.csv/text,
for every metric of verif.metric x -x dimension x bin type / aggregator
variant, on datasets with symbolic cells (so single-valid-case and all-missing
slices are paths).  Oracle: the run returns or exits through verif.util.error
with a non-zero status; any other exception is replayed and reported.
NOT decided: output types that render (plot, map, rank, maprank, impact,
mapimpact) beyond the call boundary and the 28 diagrams' drawing code (C16)."""
import numpy as np

from symx.explore import Harness
from symx import load
from harness import common

BOUNDS = {
    "quick": {"metrics": "all valid classes of verif.metric + 6 diagrams asked for csv", "axes": "3 of the 19 -x dimensions per metric (rotating)",
              "dataset": "2 inputs, 2 times x 2 lead times x 2 locations; one location may be entirely missing (thorough: also one time); ordinary / constant forecast / zero observations / perfect forecast",
              "variants": "default, -b below= -r 1, -agg median, -r 1,3 -b within; driver_plot_bins: 28 diagrams x 8 bin types x -r with 1/2/4 values on the ordinary dataset"},
    "thorough": {"metrics": "same", "axes": "all 19", "dataset": "same plus a single-time, single-location dataset", "variants": "same + -agg 0.9, -b above="},
}
ASSUMPTIONS = ["cells are concrete numbers switched by symbolic flags decided up front: one location missing, one time missing, and one of {ordinary, constant forecasts, all-zero observations, forecast == observation}", "csv numbers are realised (one representative per path) for printing",
               "verif.input.get_input returns the in-memory inputs (file readers: C09/C10)"]
STUBS = ["verif.input.get_input -> in-memory inputs", "matplotlib.pyplot -> recording stub (harness driver_plot); exceptions raised "
         "inside or because of the stub are counted as not decided"]

AXES = ["time", "leadtime", "leadtimeday", "location", "lat", "lon", "elev", "no", "year", "month", "week", "day",
        "timeofday", "dayofyear", "dayofmonth", "monthofyear", "threshold", "obs", "fcst"]
DIAGRAMS = ["obsfcst", "qq", "reliability", "roc", "pithist", "taylor"]


def metric_names():
    metric = load.modules["verif.metric"]
    names = []
    for name, cls in metric.get_all():
        try:
            if issubclass(cls, metric.Metric) and cls.is_valid() and metric.get(name.lower()) is not None:
                names.append(name.lower())
        except Exception:
            pass
    return sorted(names)


def build_inputs(S, small, with_missing_time=True, flags=True):
    """Two inputs whose cells are concrete numbers switched by symbolic flags:
    one location / one time entirely missing, constant forecasts (zero
    variance), all-zero observations (zero denominators), forecast == obs."""
    MI = common.input_class()
    T, L, P = (1, 1, 1) if small else (2, 2, 2)
    shape = (T, L, P)
    times = [1704067200 + 86400 * 40 * i for i in range(T)]      # 2024-01-01 and 2024-02-10: different months/weeks
    lts = [0.0, 30.0][:L]
    ins = []
    # the flags are symbolic booleans decided up front (the solver enumerates the feasible
    # combinations); the cells are then concrete, which keeps each of the many runs cheap
    miss_loc = bool(S.boolean("location-missing")) if flags else False
    miss_time = bool(S.boolean("time-missing")) if with_missing_time and flags else False
    degenerate = S.choose("degenerate", 4) if flags else 0
    const_fc = degenerate == 1
    zero_obs = degenerate == 2
    perfect = degenerate == 3
    rng = np.random.RandomState(7)
    nanv = float("nan")
    for k, nm in enumerate(("A", "B")):
        base = {}

        def arr(name, extra=(), lo=None, hi=None, k=k, base=base):
            vals = np.round(rng.uniform(0 if lo is None else lo, 4 if hi is None else hi, shape + tuple(extra)), 2)
            if name in ("cdf", "x"):
                vals = np.sort(vals, axis=-1)
            base[name] = vals
            out = np.empty(vals.shape, dtype=object) if S.symbolic else np.zeros(vals.shape)
            for idx in np.ndindex(*vals.shape):
                v = float(vals[idx])
                if name == "obs":
                    v = S.ite(zero_obs, 0.0, v)
                elif name == "fcst":
                    o = S.ite(zero_obs, 0.0, float(base["obs"][idx]))
                    v = S.ite(perfect, o, S.ite(const_fc, 2.0, v))
                gone = S.or_(miss_loc if idx[2] == P - 1 else False, miss_time if idx[0] == T - 1 else False)
                out[idx] = S.ite(gone, nanv, v)
            if S.symbolic:
                from symx.arrays import sa
                return sa(out)
            return out
        obs = arr("obs")
        fcst = arr("fcst")
        ins.append(MI("%s.txt" % nm, common.int_array(S, times), S.vector(lts),
                      common.locations([3, 9][:P], [60.0, 61.0][:P], [10.0, 11.0][:P], [50.0, 300.0][:P]),
                      obs=obs, fcst=fcst, pit=arr("pit", lo=0, hi=1),
                      ensemble=arr("ens", (2,)), thresholds=S.const([1.0, 3.0]), threshold_scores=arr("cdf", (2,), lo=0, hi=1),
                      quantiles=S.const([0.1, 0.9]), quantile_scores=arr("x", (2,))))
    return ins


def h_csv(axes_per_metric, variants, small=False, with_missing_time=True):
    def fn(S):
        drv = load.modules["verif.driver"]
        inp = load.modules["verif.input"]
        S.allow_realize(True)
        S.constants_as_doubles()
        S.messages_may_format_numbers()
        names = metric_names() + DIAGRAMS
        mi = S.choose("metric", len(names))
        name = names[mi]
        k = S.choose("axis", axes_per_metric)
        axis = AXES[(mi * 7 + k * (len(AXES) // axes_per_metric if axes_per_metric < len(AXES) else 1)) % len(AXES)] \
            if axes_per_metric < len(AXES) else AXES[k]
        vi = S.choose("variant", len(variants))
        fmt = "csv"       # the text writer shares _get_x_y and is exercised in C12
        ins = build_inputs(S, small, with_missing_time)
        files = {"A.txt": ins[0], "B.txt": ins[1]}
        old = inp.get_input
        inp.get_input = lambda f: files[f]
        argv = ["verif", "A.txt", "B.txt", "-m", name, "-x", axis, "-type", fmt] + variants[vi]
        code = None
        crash = None
        try:
            try:
                drv.run(argv)
            except SystemExit as e:
                code = e.code if e.code is not None else 0
            except Exception as e:      # engine signals are BaseException and pass through
                import traceback
                from symx.explore import _where
                crash = "%s@%s" % (type(e).__name__, _where(e.__traceback__))
        finally:
            inp.get_input = old
        what = "-m %s %s" % (name, " ".join(variants[vi])) if variants[vi] else "-m %s" % name
        S.prove("no-unhandled-exception", crash is None, detail="%s: %s" % (what, crash))
        S.prove("error-exits-are-non-zero", code is None or code != 0, detail=" ".join(argv[3:]))
    return fn


def h_text_variants():
    """Both text-like writers x conditional / threshold / data axes x bin types x with and without -r,
    for a few representative metrics (the full cross product is the thorough tier's)."""
    metrics = ["mae", "obs", "corr", "ets", "obs -agg max", "fcst -agg range"]
    axes = ["obs", "fcst", "threshold", "leadtime"]
    bins = [[], ["-b", "within"], ["-b", "below="], ["-b", "=within="]]
    rs = [[], ["-r", "1,3"], ["-r", "0,1,2,3"]]

    def fn(S):
        drv = load.modules["verif.driver"]
        inp = load.modules["verif.input"]
        S.allow_realize(True)
        S.constants_as_doubles()
        S.messages_may_format_numbers()
        name = metrics[S.choose("metric", len(metrics))]
        axis = axes[S.choose("axis", len(axes))]
        b = bins[S.choose("bin", len(bins))]
        r = rs[S.choose("r", len(rs))]
        fmt = ["text", "csv"][S.choose("format", 2)]
        ins = build_inputs(S, False, False)
        files = {"A.txt": ins[0], "B.txt": ins[1]}
        old = inp.get_input
        inp.get_input = lambda f: files[f]
        argv = ["verif", "A.txt", "B.txt", "-m"] + name.split() + ["-x", axis, "-type", fmt] + b + r
        code, crash = None, None
        try:
            try:
                drv.run(argv)
            except SystemExit as e:
                code = e.code if e.code is not None else 0
            except Exception as e:
                from symx.explore import _where
                crash = "%s@%s" % (type(e).__name__, _where(e.__traceback__))
        finally:
            inp.get_input = old
        what = " ".join(argv[3:])
        S.prove("no-unhandled-exception", crash is None, detail="%s: %s" % (what, crash))
        S.prove("error-exits-are-non-zero", code is None or code != 0, detail=what)
    return fn


ALL_DIAGRAMS = ["pithist", "obsfcst", "timeseries", "meteo", "qq", "autocorr", "autocov", "fss", "cond", "against", "scatter",
                "change", "spreadskill", "taylor", "error", "freq", "roc", "droc", "droc0", "reliability", "discrimination",
                "performance", "invreliability", "murphy", "bsdecomp", "igncontrib", "economicvalue", "marginal"]
PLOT_TYPES = ["plot", "map", "rank", "maprank", "impact", "mapimpact"]


def h_plot(n_types, variants, with_missing_time=False):
    """The drawing code of every diagram / output type up to the pyplot
    boundary (recording stub): Python- and NumPy-level exceptions only."""
    def fn(S):
        from symx import mplstub
        drv = load.modules["verif.driver"]
        inp = load.modules["verif.input"]
        out = load.modules["verif.output"]
        util = load.modules["verif.util"]
        S.allow_realize(True)
        S.constants_as_doubles()
        S.messages_may_format_numbers()
        names = ALL_DIAGRAMS + ["mae", "ets", "bs", "corr", "quantilescore", "pit"]
        mi = S.choose("metric", len(names))
        name = names[mi]
        ptype = PLOT_TYPES[S.choose("type", n_types)] if name not in ALL_DIAGRAMS else "plot"
        vi = S.choose("variant", len(variants))
        ins = build_inputs(S, False, with_missing_time)
        files = {"A.txt": ins[0], "B.txt": ins[1]}
        stub = mplstub.Pyplot()
        saved = (inp.get_input, out.mpl, util.mpl)
        inp.get_input = lambda f: files[f]
        out.mpl = stub
        util.mpl = stub
        argv = ["verif", "A.txt", "B.txt", "-m", name, "-type", ptype, "-f", "out.png"] + variants[vi]
        code, crash = None, None
        try:
            try:
                drv.run(argv)
            except SystemExit as e:
                code = e.code if e.code is not None else 0
            except Exception as e:
                from symx.explore import _where
                import traceback
                text = "%s: %s" % (type(e).__name__, e)
                frames = traceback.extract_tb(e.__traceback__)
                in_stub = any("mplstub" in fr.filename for fr in frames) or "Generic" in text or "_CallableOrObject" in text
                if in_stub:
                    S.note("stub limitation: %s" % text[:100])
                    return          # the recording stub cannot stand in for matplotlib here: not decided
                crash = "%s@%s" % (type(e).__name__, _where(e.__traceback__))
        finally:
            inp.get_input, out.mpl, util.mpl = saved
        what = "-m %s -type %s %s" % (name, ptype, " ".join(variants[vi]))
        S.prove("no-unhandled-exception-before-the-draw-calls", crash is None, detail="%s: %s" % (what.strip(), crash))
        S.prove("error-exits-are-non-zero", code is None or code != 0, detail=what.strip())
    return fn


BIN_TYPES = ["below", "below=", "=within", "within", "within=", "=within=", "above", "above="]


def h_plot_bins():
    """Every diagram x every bin type x one / two / three thresholds, on the ordinary dataset
    (no degenerate classes): the gates that turn an unsupported bin type into an error exit."""
    rs = [["-r", "1"], ["-r", "1,3"], ["-r", "0,1,2,3"]]

    def fn(S):
        from symx import mplstub
        drv = load.modules["verif.driver"]
        inp = load.modules["verif.input"]
        out = load.modules["verif.output"]
        util = load.modules["verif.util"]
        S.allow_realize(True)
        S.constants_as_doubles()
        S.messages_may_format_numbers()
        name = ALL_DIAGRAMS[S.choose("diagram", len(ALL_DIAGRAMS))]
        b = BIN_TYPES[S.choose("bin", len(BIN_TYPES))]
        r = rs[S.choose("r", len(rs))]
        ins = build_inputs(S, False, False, flags=False)
        files = {"A.txt": ins[0], "B.txt": ins[1]}
        stub = mplstub.Pyplot()
        saved = (inp.get_input, out.mpl, util.mpl)
        inp.get_input = lambda f: files[f]
        out.mpl = stub
        util.mpl = stub
        argv = ["verif", "A.txt", "B.txt", "-m", name, "-f", "out.png", "-b", b] + r
        code, crash = None, None
        try:
            try:
                drv.run(argv)
            except SystemExit as e:
                code = e.code if e.code is not None else 0
            except Exception as e:
                from symx.explore import _where
                import traceback
                text = "%s: %s" % (type(e).__name__, e)
                frames = traceback.extract_tb(e.__traceback__)
                if any("mplstub" in fr.filename for fr in frames) or "Generic" in text or "_CallableOrObject" in text:
                    S.note("stub limitation: %s" % text[:100])
                    return
                crash = "%s@%s" % (type(e).__name__, _where(e.__traceback__))
        finally:
            inp.get_input, out.mpl, util.mpl = saved
        what = " ".join(argv[3:])
        S.prove("no-unhandled-exception-before-the-draw-calls", crash is None, detail="%s: %s" % (what, crash))
        S.prove("error-exits-are-non-zero", code is None or code != 0, detail=what)
    return fn


KINDS = ["deterministic (text-like: no probabilistic columns, zero-member ensemble)", "deterministic (NetCDF-like: fields absent)",
         "probabilistic (cdf, quantiles, pit; no ensemble)", "ensemble only"]


def build_kind(S, kind, n):
    """n concrete inputs of one dataset kind (what a text / NetCDF file of that kind looks like to Data)."""
    MI = common.input_class()
    T, L, P = 2, 2, 2
    shape = (T, L, P)
    times = [1704067200 + 86400 * 40 * i for i in range(T)]
    rng = np.random.RandomState(11)
    ins = []
    for k in range(n):
        def arr(extra=(), lo=0.0, hi=4.0, sort=False):
            vals = np.round(rng.uniform(lo, hi, shape + tuple(extra)), 2)
            if sort:
                vals = np.sort(vals, axis=-1)
            return S.const(vals)
        kw = {}
        if kind == 0:
            kw = dict(ensemble=S.const(np.zeros(shape + (0,))), thresholds=S.const([]), threshold_scores=S.const(np.zeros(shape + (0,))),
                      quantiles=S.const([]), quantile_scores=S.const(np.zeros(shape + (0,))))
        elif kind == 2:
            kw = dict(pit=arr(lo=0, hi=1), thresholds=S.const([1.0, 3.0]), threshold_scores=arr((2,), 0, 1, True),
                      quantiles=S.const([0.1, 0.9]), quantile_scores=arr((2,), sort=True))
        elif kind == 3:
            kw = dict(ensemble=arr((3,)))
        ins.append(MI("%s.txt" % "AB"[k], common.int_array(S, times), S.vector([0.0, 30.0]),
                      common.locations([3, 9], [60.0, 61.0], [10.0, 11.0], [50.0, 300.0]), obs=arr(), fcst=arr(), **kw))
    return ins


def h_dataset_kinds():
    """Every metric and diagram x dataset kind (deterministic, probabilistic, ensemble) x one or two input
    files x (plot | rank | csv) x (default, -q, -r): what a dataset cannot support must end in an error exit."""
    extra = [[], ["-q", "0.1,0.9"], ["-r", "1"]]
    types = ["plot", "rank", "csv"]

    def fn(S):
        from symx import mplstub
        drv = load.modules["verif.driver"]
        inp = load.modules["verif.input"]
        out = load.modules["verif.output"]
        util = load.modules["verif.util"]
        S.allow_realize(True)
        S.constants_as_doubles()
        S.messages_may_format_numbers()
        names = metric_names() + ALL_DIAGRAMS
        name = names[S.choose("metric", len(names))]
        kind = S.choose("kind", len(KINDS))
        n = 1 + S.choose("inputs", 2)
        ptype = types[S.choose("type", len(types))]
        if name in ALL_DIAGRAMS and ptype == "rank":
            ptype = "plot"
        x = extra[S.choose("extra", len(extra))]
        ins = build_kind(S, kind, n)
        files = {"A.txt": ins[0]}
        if n == 2:
            files["B.txt"] = ins[1]
        stub = mplstub.Pyplot()
        saved = (inp.get_input, out.mpl, util.mpl)
        inp.get_input = lambda f: files[f]
        out.mpl = stub
        util.mpl = stub
        argv = ["verif"] + sorted(files) + ["-m", name, "-type", ptype, "-f", "out.png"] + x
        code, crash = None, None
        try:
            try:
                drv.run(argv)
            except SystemExit as e:
                code = e.code if e.code is not None else 0
            except Exception as e:
                from symx.explore import _where
                import traceback
                text = "%s: %s" % (type(e).__name__, e)
                frames = traceback.extract_tb(e.__traceback__)
                if any("mplstub" in fr.filename for fr in frames) or "Generic" in text or "_CallableOrObject" in text:
                    S.note("stub limitation: %s" % text[:100])
                    return
                crash = "%s@%s" % (type(e).__name__, _where(e.__traceback__))
        finally:
            inp.get_input, out.mpl, util.mpl = saved
        what = "%d input(s), %s: %s" % (n, KINDS[kind].split(" (")[0] + ("/text" if kind == 0 else "/nc" if kind == 1 else ""), " ".join(argv[1 + n:]))
        S.prove("no-unhandled-exception-before-the-draw-calls", crash is None, detail="%s: %s" % (what, crash))
        S.prove("error-exits-are-non-zero", code is None or code != 0, detail=what)
    return fn


def h_map_longitudes():
    """Map output types x longitude conventions of the locations (both hemispheres, across the date line,
    0..360 with a span above 180 degrees)."""
    lonsets = [[10.0, 11.0], [-170.0, 170.0], [5.0, 200.0], [-10.0, 20.0], [190.0, 350.0]]
    types = ["map", "maprank", "mapimpact"]

    def fn(S):
        from symx import mplstub
        drv = load.modules["verif.driver"]
        inp = load.modules["verif.input"]
        out = load.modules["verif.output"]
        util = load.modules["verif.util"]
        MI = common.input_class()
        S.allow_realize(True)
        S.constants_as_doubles()
        lons = lonsets[S.choose("longitudes", len(lonsets))]
        ptype = types[S.choose("type", len(types))]
        shape = (2, 1, 2)
        rng = np.random.RandomState(5)
        files = {}
        for nm in ("A", "B"):
            files[nm + ".txt"] = MI(nm + ".txt", common.int_array(S, [1704067200, 1704067200 + 86400]), S.vector([0.0]),
                                    common.locations([3, 9], [60.0, 61.0], lons, [50.0, 300.0]),
                                    obs=S.const(np.round(rng.uniform(0, 4, shape), 2)), fcst=S.const(np.round(rng.uniform(0, 4, shape), 2)))
        stub = mplstub.Pyplot()
        saved = (inp.get_input, out.mpl, util.mpl)
        inp.get_input = lambda f: files[f]
        out.mpl = stub
        util.mpl = stub
        argv = ["verif", "A.txt", "B.txt", "-m", "mae", "-type", ptype, "-f", "out.png"]
        code, crash = None, None
        try:
            try:
                drv.run(argv)
            except SystemExit as e:
                code = e.code if e.code is not None else 0
            except Exception as e:
                from symx.explore import _where
                import traceback
                text = "%s: %s" % (type(e).__name__, e)
                frames = traceback.extract_tb(e.__traceback__)
                if any("mplstub" in fr.filename for fr in frames) or "Generic" in text or "_CallableOrObject" in text:
                    S.note("stub limitation: %s" % text[:100])
                    return
                crash = "%s@%s" % (type(e).__name__, _where(e.__traceback__))
        finally:
            inp.get_input, out.mpl, util.mpl = saved
        what = "-m mae -type %s, longitudes %s" % (ptype, lons)
        S.prove("no-unhandled-exception-before-the-draw-calls", crash is None, detail="%s: %s" % (what, crash))
        S.prove("error-exits-are-non-zero", code is None or code != 0, detail=what)
    return fn


def h_plot_axes():
    """Every diagram x every -x dimension (x -q / -agg variants) on the ordinary dataset."""
    extra = [[], ["-q", "0.1,0.9"], ["-agg", "median"], ["-simple"]]

    def fn(S):
        from symx import mplstub
        drv = load.modules["verif.driver"]
        inp = load.modules["verif.input"]
        out = load.modules["verif.output"]
        util = load.modules["verif.util"]
        S.allow_realize(True)
        S.constants_as_doubles()
        S.messages_may_format_numbers()
        name = ALL_DIAGRAMS[S.choose("diagram", len(ALL_DIAGRAMS))]
        axis = AXES[S.choose("axis", len(AXES))]
        x = extra[S.choose("extra", len(extra))]
        ins = build_inputs(S, False, False, flags=False)
        files = {"A.txt": ins[0], "B.txt": ins[1]}
        stub = mplstub.Pyplot()
        saved = (inp.get_input, out.mpl, util.mpl)
        inp.get_input = lambda f: files[f]
        out.mpl = stub
        util.mpl = stub
        argv = ["verif", "A.txt", "B.txt", "-m", name, "-f", "out.png", "-x", axis] + x
        code, crash = None, None
        try:
            try:
                drv.run(argv)
            except SystemExit as e:
                code = e.code if e.code is not None else 0
            except Exception as e:
                from symx.explore import _where
                import traceback
                text = "%s: %s" % (type(e).__name__, e)
                frames = traceback.extract_tb(e.__traceback__)
                if any("mplstub" in fr.filename for fr in frames) or "Generic" in text or "_CallableOrObject" in text:
                    S.note("stub limitation: %s" % text[:100])
                    return
                crash = "%s@%s" % (type(e).__name__, _where(e.__traceback__))
        finally:
            inp.get_input, out.mpl, util.mpl = saved
        what = " ".join(argv[3:])
        S.prove("no-unhandled-exception-before-the-draw-calls", crash is None, detail="%s: %s" % (what, crash))
        S.prove("error-exits-are-non-zero", code is None or code != 0, detail=what)
    return fn


def harnesses(tier):
    thorough = tier == "thorough"
    variants = [[], ["-b", "below=", "-r", "1"], ["-agg", "median"], ["-r", "1,3", "-b", "within"]]
    if thorough:
        variants += [["-agg", "0.9"], ["-b", "above=", "-r", "2"]]
    hs = [Harness("driver_csv_text", h_csv(len(AXES) if thorough else 3, variants if thorough else variants[:3], with_missing_time=thorough),
                  "every metric x axes x variants x dataset classes through driver.run to csv", path_budget_s=60, max_paths=400000)]
    hs.append(Harness("driver_text_variants", h_text_variants(), "text and csv writers x obs/fcst/threshold/leadtime axes x bin types x -r", path_budget_s=60))
    pvariants = [[], ["-r", "1,3"], ["-x", "location"]] + ([["-b", "below=", "-r", "1"], ["-x", "time"], ["-q", "0.1,0.9"]] if thorough else [])
    hs.append(Harness("driver_plot", h_plot(len(PLOT_TYPES) if thorough else 3, pvariants, with_missing_time=thorough),
                      "every diagram and output type up to the pyplot boundary (recording stub)", path_budget_s=60, max_paths=400000))
    hs.append(Harness("driver_plot_bins", h_plot_bins(), "every diagram x 8 bin types x 1/2/4 thresholds up to the pyplot boundary", path_budget_s=60))
    hs.append(Harness("driver_dataset_kinds", h_dataset_kinds(), "every metric / diagram x 4 dataset kinds x 1 or 2 inputs x plot/rank/csv x (default, -q, -r)", path_budget_s=60, max_paths=60000))
    hs.append(Harness("driver_map_longitudes", h_map_longitudes(), "map output types x longitude conventions of the locations", path_budget_s=60))
    hs.append(Harness("driver_plot_axes", h_plot_axes(), "every diagram x 19 -x dimensions x (default, -q, -agg median, -simple) up to the pyplot boundary", path_budget_s=60))
    if thorough:
        hs.append(Harness("driver_csv_text.tiny", h_csv(len(AXES), variants, small=True), "single time, single lead time, single location"))
    return hs
