"""C16, third group of diagrams (`diagrams3.*`): invreliability, spreadskill,
against, bsdecomp, igncontrib, economicvalue, murphy, droc.

Same boundary as the other C16 harnesses: matplotlib.pyplot is a recording
stub; what is decided are the x / y arrays handed to plot().  These diagrams
bin on fixed grids of 11 - 31 edges; a symbolic value forks once per edge, so
the first input is symbolic inside a stated window that contains two or three
of the edges and the second input is concrete (with a value exactly on an
edge).  Values outside the window take the same code path as the concrete
input's values do."""
import numpy as np

from symx.explore import Harness
from symx import load
from symx import mplstub
from harness import common, ref
from harness.c08 import brier_terms
from symx import values as V

DIAGRAMS3 = ["invreliability", "spreadskill", "against", "bsdecomp", "igncontrib", "economicvalue", "murphy", "droc"]

SHAPES = {"invreliability": (3, 1, 1), "spreadskill": (2, 1, 1), "against": (2, 1, 1), "bsdecomp": (2, 1, 1),
          "igncontrib": (2, 1, 1), "economicvalue": (2, 1, 1), "murphy": (2, 1, 1), "droc": (2, 1, 1)}
# window of the first input's forecast probability / forecast value
PWIN = {"igncontrib": (0.4, 0.6), "economicvalue": (0.3, 0.5), "murphy": (0.42, 0.58), "bsdecomp": (0.15, 0.45)}


def h_diagrams3(which, big):
    def fn(S):
        return run3(S, which, big)
    return fn


def run3(S, which, big):
    data = load.modules["verif.data"]
    out = load.modules["verif.output"]
    util = load.modules["verif.util"]
    ax = load.modules["verif.axis"]
    MI = common.input_class()
    T, L, P = SHAPES[which]
    if big and which in ("bsdecomp", "against", "invreliability"):
        T += 1
    shape = (T, L, P)
    cells = list(np.ndindex(*shape))
    names = ("A.txt", "B.txt")
    prob = which in PWIN
    both_symbolic = which == "against"
    raw, rawp, ins = [], [], []
    conc_obs = [0.5, 1.0, 1.75, 2.5]
    conc_fcst = [1.5, 0.25, 2.0, 1.0]
    for nm in ("A", "B"):
        sym = nm == "A" or both_symbolic
        if sym:
            obs = S.array(nm + ".obs", shape, nan=False)
            if which == "droc":
                fcst = S.array(nm + ".fcst", shape, nan=False, lo=0, hi=2)
            else:
                fcst = S.array(nm + ".fcst", shape, nan=False)
            if nm == "A":
                obs[cells[0]] = S.real("A.obs?", nan=True)
                if which != "droc":
                    fcst[cells[1]] = S.real("A.fcst?", nan=True)
            elif both_symbolic:
                fcst[cells[-1]] = S.real("B.fcst?", nan=True)
        else:
            obs = S.const(np.array(conc_obs[:T], dtype=float).reshape(shape))
            fcst = S.const(np.array(conc_fcst[:T], dtype=float).reshape(shape))
        raw.append((obs, fcst))
        kw = {}
        if which == "invreliability":
            if sym:
                q = S.array(nm + ".q", shape + (1,), nan=False)
                q[cells[-1] + (0,)] = S.real("A.q?", nan=True)
            else:
                q = S.const(np.array([1.5, 0.25, 1.0, 0.75][:T], dtype=float).reshape(shape + (1,)))
            kw = {"quantiles": S.const([0.5]), "quantile_scores": q}
            rawp.append(q)
        if which == "spreadskill":
            if sym:
                q = S.array(nm + ".q", shape + (2,), nan=False)
                q[cells[-1] + (1,)] = S.real("A.q?", nan=True)
            else:
                q = S.const(np.array([[0.5, 1.5], [1.0, 3.0]], dtype=float).reshape(shape + (2,)))
            kw = {"quantiles": S.const([0.1, 0.9]), "quantile_scores": q}
            rawp.append(q)
        if prob:
            lo, hi = PWIN[which]
            if sym:
                pr = S.array(nm + ".p", shape + (1,), nan=False, lo=lo, hi=hi)
                pr[cells[-1] + (0,)] = S.real("A.p?", nan=True, lo=lo, hi=hi)
            else:
                # one value exactly on an edge of each of the grids used (0.5 = 10/20; 0.343 = 0.7^3; 0.3 of linspace(0,1,11))
                pr = S.const(np.array([0.5, float(np.linspace(0, 1, 21)[14] ** 3), 0.25, 1.0][:T], dtype=float).reshape(shape + (1,)))
            kw = {"thresholds": S.const([1.0]), "threshold_scores": pr}
            rawp.append(pr)
        ins.append(MI(nm + ".txt", common.int_array(S, [86400 * i for i in range(T)]), S.vector([0.0]),
                      common.locations(list(range(1, P + 1))), obs=obs.copy(), fcst=fcst.copy(), **kw))
    D = data.Data(ins)

    def present(x):
        return not bool(S.isnan(x))

    def valid(c, need_obs=True, need_fcst=True, extras=()):
        for k, (o, fc) in enumerate(raw):
            if need_obs and not present(o[c]):
                return False
            if need_fcst and not present(fc[c]):
                return False
            for e in extras:
                if not present(rawp[k][c + (e,)]):
                    return False
        return True

    def mean(xs):
        return ref.r_mean(S, xs) if xs else float("nan")

    def EQ(k):
        # the second input is concrete: both sides are doubles computed in different orders (S.close, see DESIGN 2.6)
        # ... and so are the counts of economicvalue / igncontrib once the bin of every case is decided on the path
        return S.same if ((k == 0 and which not in ("economicvalue", "igncontrib")) or both_symbolic) else S.close

    t = [S.real("r%d" % i, lo=-10, hi=10) for i in range(3)]
    pl = {"invreliability": out.InvReliability, "spreadskill": out.SpreadSkill, "against": out.Against, "bsdecomp": out.BsDecomp,
          "igncontrib": out.IgnContrib, "economicvalue": out.EconomicValue, "murphy": out.Murphy, "droc": out.DRoc}[which]()
    pl.simple = True
    if which == "invreliability":
        S.assume(S.and_(t[0] < t[1], t[1] < t[2]))
        pl.quantiles = S.const([0.5])
        pl.thresholds = S.vector(t)
    elif which == "spreadskill":
        S.assume(S.and_(t[0] < t[1], t[1] < t[2]))
        pl.thresholds = S.vector(t)
        if S.choose("-q", 2):
            pl.quantiles = S.const([0.9, 0.1])      # -q in any order: the interval is between the lowest and the highest level
    elif which == "droc":
        pl.thresholds = S.const([1.0])
        pl.bin_type = "above"
    elif prob:
        pl.thresholds = S.const([1.0])
        pl.bin_type = "below"
        if which == "bsdecomp":
            pl.axis = ax.No()
    if which == "bsdecomp":
        S.messages_may_format_numbers(True)     # the "unc: %.3g" text label; the label's characters are not decided
    stub = mplstub.Pyplot()
    if which == "bsdecomp":
        # the decoration (101 iso-Brier-score lines) interpolates label positions with np.interp when a line leaves the
        # view at the top; the stub's view is tall enough that none does (the decoration is not what is decided)
        class Tall(mplstub.Pyplot):
            def ylim(self, *a, **k):
                self.calls.add("mpl", "ylim", a, k)
                return (0.0, 100.0)
        stub = Tall()
    saved = (out.mpl, util.mpl)
    out.mpl = stub
    util.mpl = stub
    try:
        pl.plot(D)
    finally:
        out.mpl, util.mpl = saved
    plots = stub.calls.find("mpl", "plot")
    series = [c for c in plots if c[3].get("label") in names]
    if which != "against":
        S.observe("curves", [[S.elements(c[2][0]), S.elements(c[2][1])] for c in series])
        S.prove("one-series-per-input-in-order", [c[3]["label"] for c in series] == list(names), detail=which)
        if [c[3]["label"] for c in series] != list(names):
            return

    if which == "invreliability":
        # per input and bin [e_b, e_b+1) of the stored median: x = mean of the medians in the bin (0 without cases),
        # y = fraction of the bin's cases whose observation is <= the median (needs two cases, else nothing is drawn)
        sel_all = [c for c in cells if valid(c, need_fcst=False, extras=(0,))]
        for k, c in enumerate(series):
            xs, ys = S.elements(c[2][0]), S.elements(c[2][1])
            S.prove("one-point-per-bin", len(xs) == 2 and len(ys) == 2, detail=which)
            if len(xs) != 2 or len(ys) != 2:
                continue
            o, q = raw[k][0], rawp[k]
            counted = 0
            for b in range(2):
                sel = [c_ for c_ in sel_all if bool(S.and_(q[c_ + (0,)] >= t[b], q[c_ + (0,)] < t[b + 1]))]
                counted += len(sel)
                wx = mean([q[c_ + (0,)] for c_ in sel]) if sel else 0.0
                S.prove("bin-x=mean-quantile-of-its-cases", EQ(k)(xs[b], wx), twin=EQ(k)(xs[b], wx + 1), detail=which)
                if len(sel) >= 2:
                    wy = S.div(S.count(o[c_] <= q[c_ + (0,)] for c_ in sel), len(sel))
                    S.prove("bin-y=frequency-of-obs-not-above-the-quantile", EQ(k)(ys[b], wy), twin=EQ(k)(ys[b], wy + 1), detail=which)
                else:
                    S.prove("fewer-than-2-cases-give-no-frequency", bool(S.isnan(ys[b])), detail=which)
            inside = len([c_ for c_ in sel_all if bool(S.and_(q[c_ + (0,)] >= t[0], q[c_ + (0,)] < t[2]))])
            S.prove("each-case-in-exactly-one-bin", counted == inside, detail=which)
        return
    if which == "spreadskill":
        # per input and spread bin (t_i-1, t_i]: x = mean width of the 10-90 % interval, y = RMSE of its cases
        sel_all = [c for c in cells if valid(c, extras=(0, 1))]
        for k, c in enumerate(series):
            xs, ys = S.elements(c[2][0]), S.elements(c[2][1])
            S.prove("one-point-per-threshold", len(xs) == 3 and len(ys) == 3, detail=which)
            if len(xs) != 3 or len(ys) != 3:
                continue
            o, fc = raw[k]
            spread = {c_: rawp[k][c_ + (1,)] - rawp[k][c_ + (0,)] for c_ in sel_all}
            S.prove("no-bin-below-the-first-threshold", bool(S.and_(S.isnan(xs[0]), S.isnan(ys[0]))), detail=which)
            counted = 0
            for b in (1, 2):
                sel = [c_ for c_ in sel_all if bool(S.and_(spread[c_] > t[b - 1], spread[c_] <= t[b]))]
                counted += len(sel)
                if not sel:
                    S.prove("empty-bin-draws-nothing", bool(S.and_(S.isnan(xs[b]), S.isnan(ys[b]))), detail=which)
                    continue
                wx = mean([spread[c_] for c_ in sel])
                mse = mean([(o[c_] - fc[c_]) * (o[c_] - fc[c_]) for c_ in sel])
                S.prove("bin-x=mean-spread", EQ(k)(xs[b], wx), twin=EQ(k)(xs[b], wx + 1), detail=which)
                S.prove("bin-y=rmse-of-its-cases", S.and_(ys[b] >= 0, EQ(k)(ys[b] * ys[b], mse)), twin=EQ(k)(ys[b] * ys[b], mse + 1), detail=which)
            inside = len([c_ for c_ in sel_all if bool(S.and_(spread[c_] > t[0], spread[c_] <= t[2]))])
            S.prove("each-case-in-exactly-one-bin", counted == inside, detail=which)
        return
    if which == "against":
        # crosses: forecast of A against forecast of B wherever both forecasts exist; squares: where the observations
        # exist too; red / blue dots (5 shades): the cases where A / B is closer to the observation by more than
        # k/5 of half the standard deviation of the observations, k = 0..4
        def same_list(got, want):
            got = S.elements(got)
            return len(got) == len(want) and bool(S.all(S.same(a, b) for a, b in zip(got, want)))
        crosses = [c for c in plots if len(c[2]) >= 3 and c[2][2] == "x"]
        squares = [c for c in plots if len(c[2]) >= 3 and c[2][2] == "s"]
        S.prove("one-cross-series-and-one-square-series", len(crosses) == 1 and len(squares) == 1, detail=which)
        if len(crosses) != 1 or len(squares) != 1:
            return
        fsel = [c for c in cells if valid(c, need_obs=False)]
        osel = [c for c in cells if valid(c)]
        fa, fb = raw[0][1], raw[1][1]
        if not fsel:
            S.prove("no-cross-without-forecasts", bool(S.all(S.isnan(v) for v in S.elements(crosses[0][2][0]) + S.elements(crosses[0][2][1]))), detail=which)
            return
        S.prove("crosses=forecast-pairs-of-all-cases-with-both-forecasts",
                same_list(crosses[0][2][0], [fa[c] for c in fsel]) and same_list(crosses[0][2][1], [fb[c] for c in fsel]),
                twin=same_list(crosses[0][2][1], [fb[c] + 1 for c in fsel]), detail=which)
        if not osel:
            # no case with observations: NaN coordinates draw nothing
            S.prove("no-square-without-observations", bool(S.all(S.isnan(v) for v in S.elements(squares[0][2][0]) + S.elements(squares[0][2][1]))), detail=which)
            return
        S.prove("squares=forecast-pairs-of-the-cases-with-observations",
                same_list(squares[0][2][0], [fa[c] for c in osel]) and same_list(squares[0][2][1], [fb[c] for c in osel]),
                twin=same_list(squares[0][2][0], [fa[c] + 1 for c in osel]), detail=which)
        o = raw[0][0]
        half_std = ref.r_std(S, [o[c] for c in osel]) / 2
        red = [c for c in plots if len(c[2]) >= 3 and c[2][2] == "r."]
        blue = [c for c in plots if len(c[2]) >= 3 and c[2][2] == "b."]
        S.prove("five-shades-per-colour", len(red) == 5 and len(blue) == 5, detail=which)
        if len(red) != 5 or len(blue) != 5:
            return
        for k in range(5):
            ea = {c: S.abs(o[c] - fa[c]) for c in osel}
            eb = {c: S.abs(o[c] - fb[c]) for c in osel}
            ra = [c for c in osel if bool(eb[c] > ea[c] + half_std * k / 5)]
            rb = [c for c in osel if bool(eb[c] + half_std * k / 5 < ea[c])]
            S.prove("red=cases-where-the-first-input-is-closer",
                    same_list(red[k][2][0], [fa[c] for c in ra]) and same_list(red[k][2][1], [fb[c] for c in ra]), detail="shade %d" % k)
            S.prove("blue=cases-where-the-second-input-is-closer",
                    same_list(blue[k][2][0], [fa[c] for c in rb]) and same_list(blue[k][2][1], [fb[c] for c in rb]), detail="shade %d" % k)
            S.prove("no-case-in-both-colours", not (set(ra) & set(rb)), detail="shade %d" % k)
        return

    # the probabilistic diagrams and droc: event "obs < 1" (below) resp. "obs > 1" (droc, above)
    if which == "droc":
        sel = [c for c in cells if valid(c)]
        fts = [float(x) for x in np.linspace(1.0 - 10, 1.0 + 10, 31)]
        for k, c in enumerate(series):
            xs, ys = S.elements(c[2][0]), S.elements(c[2][1])
            S.prove("points-per-curve", len(xs) == 33 and len(ys) == 33, detail=which)
            if len(xs) != 33 or len(ys) != 33 or not sel:
                continue
            o, fc = raw[k]
            S.prove("end-points", S.and_(S.same(xs[0], 1), S.same(ys[0], 1), S.same(xs[32], 0), S.same(ys[32], 0)), detail=which)
            n_ev = S.count(o[q] > 1.0 for q in sel)
            n_no = len(sel) - n_ev
            for i, ft in enumerate(fts):
                a = S.count(S.and_(fc[q] > ft, o[q] > 1.0) for q in sel)
                b = S.count(S.and_(fc[q] > ft, S.not_(o[q] > 1.0)) for q in sel)
                S.prove("point=(false-alarm-rate, hit-rate)-of-the-forecast-threshold",
                        S.and_(S.ite(n_no == 0, S.isnan(xs[1 + i]), S.same(xs[1 + i], S.div(b, n_no))),
                               S.ite(n_ev == 0, S.isnan(ys[1 + i]), S.same(ys[1 + i], S.div(a, n_ev)))),
                        twin=S.ite(n_ev == 0, False, S.same(ys[1 + i], S.div(a, n_ev) + 1)), detail="forecast threshold %d" % i)
        return

    sel = [c for c in cells if valid(c, need_fcst=False, extras=(0,))]
    if not sel:
        return          # no valid case at all: what an empty diagram shows is not prescribed
    for k, c in enumerate(series):
        xs, ys = S.elements(c[2][0]), S.elements(c[2][1])
        o = raw[k][0]
        p = {q: rawp[k][q + (0,)] for q in sel}
        ev = {q: o[q] < 1.0 for q in sel}
        n = len(sel)
        if which == "bsdecomp":
            S.prove("one-point-per-input", len(xs) == 1 and len(ys) == 1, detail=which)
            if len(xs) != 1:
                continue
            tm = brier_terms(S, [S.ite(ev[q], 1.0, 0.0) for q in sel], [p[q] for q in sel])
            S.prove("x=reliability-term", EQ(k)(xs[0], tm["rel"]), twin=EQ(k)(xs[0], tm["rel"] + 1), detail=which)
            S.prove("y=resolution-term", EQ(k)(ys[0], tm["res"]), twin=EQ(k)(ys[0], tm["res"] + 1), detail=which)
        elif which == "igncontrib":
            edges = [float(x) for x in np.linspace(0, 1, 12)]
            S.prove("one-point-per-bin", len(xs) == 11 and len(ys) == 11, detail=which)
            if len(xs) != 11 or len(ys) != 11:
                continue
            counted = 0
            for b in range(11):
                inb = [q for q in sel if bool(S.and_(p[q] >= edges[b], (p[q] <= edges[b + 1]) if b == 10 else (p[q] < edges[b + 1])))]
                counted += len(inb)
                if not inb:
                    S.prove("empty-bin-draws-nothing", bool(S.and_(S.isnan(xs[b]), S.isnan(ys[b]))), detail=which)
                    continue
                wx = mean([p[q] for q in inb])
                ign = S.sum(S.ite(ev[q], -S.log(p[q], 2), -S.log(1 - p[q], 2)) for q in inb)
                wy = S.div(ign * 11, n)
                # log2 is uninterpreted in the engine; for the concrete input the code meets its probabilities either as
                # doubles (real log2) or wrapped in the cross-input missing-value test (uninterpreted log2): both readings
                ign_u = S.sum(S.ite(ev[q], -V.v_log(p[q], 2), -V.v_log(1 - p[q], 2)) for q in inb) if S.symbolic else ign
                wy_u = S.div(ign_u * 11, n)
                S.prove("bin-x=mean-forecast-probability", EQ(k)(xs[b], wx), twin=EQ(k)(xs[b], wx + 1), detail=which)
                S.prove("bin-y=ignorance-contributed-by-its-cases", S.or_(EQ(k)(ys[b], wy), EQ(k)(ys[b], wy_u)),
                        twin=S.or_(EQ(k)(ys[b], wy + 1), EQ(k)(ys[b], wy_u + 1)), detail=which)
            S.prove("each-case-in-exactly-one-bin", counted == n, detail=which)
        elif which == "economicvalue":
            ratios = [float(x) for x in np.linspace(0, 1, 21) ** 3]
            S.prove("one-point-per-cost-loss-ratio", len(xs) == 21 and len(ys) == 21 and
                    bool(S.all(S.same(a, b) for a, b in zip(xs, ratios))), detail=which)
            if len(ys) != 21:
                continue
            s = S.div(S.count(ev[q] for q in sel), n)
            for i, r in enumerate(ratios):
                # expense per case (loss 1, cost r): protect when p >= r; climatology: always or never protect; perfect: r per event
                e_f = S.div(r * S.count(p[q] >= r for q in sel) + S.count(S.and_(p[q] < r, ev[q]) for q in sel), n)
                e_c = S.min2(s, r)
                e_p = s * r
                S.prove("value=(climate-forecast)/(climate-perfect)",
                        S.ite(S.same(e_c, e_p), S.same(ys[i], 0.0), EQ(k)(ys[i] * (e_c - e_p), e_c - e_f)),
                        twin=S.ite(S.same(e_c, e_p), S.same(ys[i], 1.0), EQ(k)(ys[i] * (e_c - e_p), e_c - e_f + 1)), detail="ratio %d" % i)
        elif which == "murphy":
            edges = [float(x) for x in np.linspace(0, 1, 21)]
            S.prove("one-point-per-probability-threshold", len(xs) == 21 and len(ys) == 21, detail=which)
            if len(ys) != 21:
                continue
            for i, e in enumerate(edges):
                w = S.div(S.sum(S.ite(S.and_(p[q] > e, S.not_(ev[q])), 2 * e, 0.0) + S.ite(S.and_(p[q] < e, ev[q]), 2 * (1 - e), 0.0) +
                                S.ite(S.same(p[q], e), 2 * e * (1 - e), 0.0) for q in sel), n)
                S.prove("y=mean-elementary-score", S.close(ys[i], w, 1e-6) if not S.symbolic else EQ(k)(ys[i], w),
                        twin=EQ(k)(ys[i], w + 1), detail="threshold %d" % i)


def harnesses(tier):
    thorough = tier == "thorough"
    return [Harness("diagrams3." + w, h_diagrams3(w, thorough), "%s diagram vs its definition" % w,
                    rtol=1e-5 if w == "murphy" else None) for w in DIAGRAMS3]
