"""C07 -- event definitions (-b) are the documented open/closed intervals.

Kernel executed symbolically: verif.interval.Interval.within (scalar and array
branch), verif.util.apply_threshold, apply_threshold_prob, get_intervals.
Oracle: the documented inequality per bin type, written here from the help
text; all implementations must agree with it (and hence with each other)."""
import numpy as np

from symx.explore import Harness
from symx import load

BIN_TYPES = ["below", "below=", "above", "above=", "within", "=within", "within=", "=within="]

BOUNDS = {
    "quick": {"values": "1 scalar / arrays of 2", "thresholds": 2, "bin_types": 8,
              "value kinds": "finite, NaN, +inf, -inf"},
    "thorough": {"values": "1 scalar / arrays of 3", "thresholds": 3, "bin_types": 8,
                 "value kinds": "finite, NaN, +inf, -inf"},
}
ASSUMPTIONS = ["thresholds are finite reals (any order unless stated)"]
STUBS = []


def event(S, x, bin_type, lo, hi=None):
    """The documented event of `bin_type` for a non-missing value x."""
    if bin_type == "below":
        return x < lo
    if bin_type == "below=":
        return x <= lo
    if bin_type == "above":
        return x > lo
    if bin_type == "above=":
        return x >= lo
    if bin_type == "within":
        return S.and_(x > lo, x < hi)
    if bin_type == "=within":
        return S.and_(x >= lo, x < hi)
    if bin_type == "within=":
        return S.and_(x > lo, x <= hi)
    if bin_type == "=within=":
        return S.and_(x >= lo, x <= hi)
    raise ValueError(bin_type)


KINDS = ["", "/x=+inf", "/x=-inf"]
INF_END = "infinite-value-at-unbounded-end"


def lab(base, bin_type, xk):
    """Obligation label.  An infinite value tested against the unbounded end of
    a below/above event (x=+inf vs 'above*', x=-inf vs 'below*') gets its own
    label: it is one root cause (known finding), kept apart from everything
    else so that no other failure can hide behind it."""
    if (xk == "/x=+inf" and bin_type.startswith("above")) or (xk == "/x=-inf" and bin_type.startswith("below")):
        return "%s.%s" % (base, INF_END)
    return "%s=%s%s" % (base, bin_type, xk)


def sym_value(S, name):
    """(value, label suffix): finite-or-NaN symbolic value, or a concrete
    infinity (3-way choice).  The suffix keeps obligations about infinite
    values apart from those about finite ones."""
    kind = S.choose(name + ".kind", 3)
    if kind == 0:
        return S.real(name, nan=True), KINDS[0]
    return (np.float64(np.inf) if kind == 1 else np.float64(-np.inf)), KINDS[kind]


def is_true(S, r):
    """r (bool-ish, or NaN for 'no event') denotes 'in the event'."""
    if isinstance(r, (float, np.floating)):
        return (not np.isnan(r)) and bool(r)
    return r


def h_within_scalar(nthr):
    def fn(S):
        util = load.modules["verif.util"]
        b = S.choose("bin", len(BIN_TYPES))
        bin_type = BIN_TYPES[b]
        ts = [S.real("t%d" % i) for i in range(nthr)]
        x, xk = sym_value(S, "x")
        intervals = util.get_intervals(bin_type, S.vector(ts))
        expect_n = nthr - 1 if "within" in bin_type else nthr
        S.prove("get_intervals.count", len(intervals) == expect_n, twin=len(intervals) == expect_n + 1)
        for i, iv in enumerate(intervals):
            lo, hi = (ts[i], ts[i + 1]) if "within" in bin_type else (ts[i], None)
            r = iv.within(x)
            S.observe("within", r)
            ev = event(S, x, bin_type, lo, hi)
            miss = S.isnan(x)
            # NaN belongs to no event (result is NaN / not true); otherwise membership == documented event
            ok = S.ite(miss, S.not_(is_true(S, r)) if not isinstance(r, float) else True,
                       S.iff(is_true(S, r), ev))
            S.prove(lab("within.scalar", bin_type, xk), ok, twin=S.iff(is_true(S, r), S.not_(ev)))
            if isinstance(r, float):
                S.prove("within.scalar.nan-only-for-missing", miss)
    return fn


def h_within_array(n, nthr):
    def fn(S):
        util = load.modules["verif.util"]
        b = S.choose("bin", len(BIN_TYPES))
        bin_type = BIN_TYPES[b]
        ts = [S.real("t%d" % i) for i in range(nthr)]
        xv = [sym_value(S, "x%d" % i) for i in range(n)]
        xs = [v[0] for v in xv]
        arr = S.vector(xs)
        intervals = util.get_intervals(bin_type, S.vector(ts))
        for i, iv in enumerate(intervals):
            lo, hi = (ts[i], ts[i + 1]) if "within" in bin_type else (ts[i], None)
            r = iv.within(arr)
            data, mask = S.masked_parts(r)
            S.observe("data", [S.ite(m, False, d) for d, m in zip(data, mask)])
            S.observe("mask", mask)
            for k in range(n):
                miss = S.isnan(xs[k])
                ev = event(S, xs[k], bin_type, lo, hi)
                S.prove("within.array.mask=%s" % bin_type, S.iff(mask[k], miss), twin=S.iff(mask[k], S.not_(miss)))
                S.prove(lab("within.array.member", bin_type, xv[k][1]), S.implies(S.not_(miss), S.iff(data[k], ev)),
                        twin=S.implies(S.not_(miss), S.iff(data[k], S.not_(ev))))
                # masked entries must not read as members either (np.where uses the data)
                S.prove("within.array.masked-not-member", S.implies(miss, S.not_(data[k])))
    return fn


def h_apply_threshold(n):
    def fn(S):
        util = load.modules["verif.util"]
        b = S.choose("bin", len(BIN_TYPES))
        bin_type = BIN_TYPES[b]
        t1 = S.real("t1")
        t2 = S.real("t2")
        xv = [sym_value(S, "x%d" % i) for i in range(n)]
        xs = [v[0] for v in xv]
        arr = S.vector(xs)
        if "within" in bin_type:
            r = util.apply_threshold(arr, bin_type, t1, t2)
        else:
            r = util.apply_threshold(arr, bin_type, t1)
        out = S.elements(r)
        S.observe("binary", out)
        # the input array must not be modified
        S.prove("apply_threshold.input-unchanged", S.all(S.same(a, b) for a, b in zip(S.elements(arr), xs)))
        for k in range(n):
            miss = S.isnan(xs[k])
            ev = event(S, xs[k], bin_type, t1, t2)
            want = S.ite(miss, float("nan"), S.ite(ev, 1.0, 0.0))
            S.prove("apply_threshold=%s" % bin_type, S.same(out[k], want),
                    twin=S.same(out[k], S.ite(miss, float("nan"), S.ite(ev, 0.0, 1.0))))
            # agreement with Interval.within on the same event
            iv = util.get_intervals(bin_type, S.vector([t1, t2]))[0]
            w = iv.within(xs[k])
            S.prove(lab("apply_threshold-agrees-with-interval", bin_type, xv[k][1]),
                    S.implies(S.not_(miss), S.iff(out[k] == 1, is_true(S, w))))
    return fn


def h_prob():
    def fn(S):
        util = load.modules["verif.util"]
        b = S.choose("bin", len(BIN_TYPES))
        bin_type = BIN_TYPES[b]
        p_lo = S.real("p_lower", lo=0, hi=1)
        p_hi = S.real("p_upper", lo=0, hi=1)
        r = util.apply_threshold_prob(S.vector([p_lo]), bin_type, S.vector([p_hi]))
        got = S.elements(r)[0]
        S.observe("prob", got)
        if bin_type.startswith("below"):
            want = p_lo
        elif bin_type.startswith("above"):
            want = 1 - p_lo
        else:
            want = p_hi - p_lo
        S.prove_same("apply_threshold_prob=%s" % bin_type, got, want)
    return fn


def h_intervals_structure(nthr):
    def fn(S):
        util = load.modules["verif.util"]
        b = S.choose("bin", len(BIN_TYPES))
        bin_type = BIN_TYPES[b]
        ts = [S.real("t%d" % i) for i in range(nthr)]
        intervals = util.get_intervals(bin_type, S.vector(ts))
        for i, iv in enumerate(intervals):
            if bin_type.startswith("below"):
                want = (-np.inf, ts[i], False, bin_type.endswith("="))
            elif bin_type.startswith("above"):
                want = (ts[i], np.inf, bin_type.endswith("="), False)
            else:
                want = (ts[i], ts[i + 1], bin_type.startswith("="), bin_type.endswith("="))
            S.observe("interval", [iv.lower, iv.upper, bool(iv.lower_eq), bool(iv.upper_eq)])
            S.prove("get_intervals.lower", S.same(iv.lower, want[0]), twin=S.same(iv.lower, want[0] + 1) if want[0] != -np.inf else None)
            S.prove("get_intervals.upper", S.same(iv.upper, want[1]), twin=S.same(iv.upper, want[1] + 1) if want[1] != np.inf else None)
            S.prove("get_intervals.closedness", bool(iv.lower_eq) == want[2] and bool(iv.upper_eq) == want[3])
        # no thresholds -> the whole real line, closed
        whole = util.get_intervals(bin_type, None)
        S.prove("get_intervals.none", len(whole) == 1 and whole[0].lower == -np.inf and whole[0].upper == np.inf)
    return fn


def h_partition():
    """For t1 < t2 < t3 the 'within=' events are disjoint and cover (t1, t3];
    'above' is the complement of 'below=' on non-missing values."""
    def fn(S):
        util = load.modules["verif.util"]
        t1, t2, t3 = S.real("t1"), S.real("t2"), S.real("t3")
        S.assume(S.and_(t1 < t2, t2 < t3))
        x, xk = sym_value(S, "x")
        ivs = util.get_intervals("within=", S.vector([t1, t2, t3]))
        S.prove("within=.count", len(ivs) == 2)
        a = is_true(S, ivs[0].within(x))
        b = is_true(S, ivs[1].within(x))
        S.observe("members", [a, b])
        miss = S.isnan(x)
        S.prove("within=.disjoint", S.not_(S.and_(a, b)), twin=S.not_(a))
        S.prove("within=.cover", S.implies(S.not_(miss), S.iff(S.or_(a, b), S.and_(x > t1, x <= t3))),
                twin=S.implies(S.not_(miss), S.iff(S.or_(a, b), S.and_(x > t1, x < t3))))
        S.prove("missing-in-no-event", S.implies(miss, S.not_(S.or_(a, b))))
        above = is_true(S, util.get_intervals("above", S.vector([t2]))[0].within(x))
        below_eq = is_true(S, util.get_intervals("below=", S.vector([t2]))[0].within(x))
        S.prove("above=not(below=)" + ("." + INF_END if xk else ""), S.implies(S.not_(miss), S.iff(above, S.not_(below_eq))),
                twin=S.implies(S.not_(miss), S.iff(above, below_eq)))
    return fn


def harnesses(tier):
    thorough = tier == "thorough"
    n = 3 if thorough else 2
    nthr = 3 if thorough else 2
    return [
        Harness("within_scalar", h_within_scalar(nthr), "Interval.within on a scalar, all bin types"),
        Harness("within_array", h_within_array(n, nthr), "Interval.within on an array (masked result)"),
        Harness("apply_threshold", h_apply_threshold(n), "util.apply_threshold vs documented events and vs Interval"),
        Harness("apply_threshold_prob", h_prob(), "util.apply_threshold_prob"),
        Harness("get_intervals", h_intervals_structure(nthr), "bin type + thresholds -> intervals"),
        Harness("partition", h_partition(), "within= partition of (t1,t3]; above = not below="),
    ]
