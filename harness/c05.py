"""C05 -- deterministic scores equal their published definitions.

Kernel: ObsFcstBased.compute_from_obs_fcst (pair filtering) and every
_compute_from_obs_fcst in verif/metric.py, Within, Conditional, XConditional,
Count, with every aggregator.  Oracle: definition table below, written from the
literature on the valid pairs; undefined -> NaN / non-finite, never an
exception; perfect forecast -> perfect_score; nothing beats perfect_score."""
import numpy as np

from symx.explore import Harness
from symx import load
from harness import ref
from harness.c07 import BIN_TYPES, event

BOUNDS = {
    "quick": {"pairs": "0..2 (each value finite or NaN)", "aggregators": "all 14 + quantile levels 0, 0.1, 0.5, 1",
              "plain metrics pairs": "0..3 (0..2 for the non-linear ones: stderror, stddevs, nsec, nnsec, kge, alphaindex, corr)"},
    "thorough": {"pairs": "0..3 (each value finite or NaN)", "aggregators": "all 14 + quantile levels 0, 0.1, 0.5, 1",
                 "plain metrics pairs": "0..4 (0..3 for the non-linear ones)"},
}
ASSUMPTIONS = [
    "stored obs/fcst values are real numbers or NaN",
    "log/exp (rmsf) are uninterpreted monotone functions: the rmsf definition is compared modulo their exact values",
    "rankcorr/kendallcorr: scipy.stats.spearmanr / kendalltau are library models (average ranks / tau-b), validated against SciPy on a corpus",
]
STUBS = []

AGG_METRICS = ["Mae", "Bias", "Diff", "Ratio", "Rmse", "Rmsf", "Cmae"]
PLAIN_METRICS = ["Ef", "StdError", "ObsStdDev", "FcstStdDev", "Nsec", "Nnsec", "Kge", "Alphaindex", "Leps",
                 "Dmb", "Mbias", "Corr", "DError"]
ERROR_SKILL = ["Mae", "Rmse", "StdError", "Cmae", "DError", "Leps", "Alphaindex", "Corr", "Nsec", "Nnsec", "Kge"]


def valid_pairs(S, obs, fcst):
    o_all, f_all = S.elements(obs), S.elements(fcst)
    o, f = [], []
    for a, b in zip(o_all, f_all):
        if not bool(S.or_(S.isnan(a), S.isnan(b))):
            o.append(a)
            f.append(b)
    return o, f


def cube(x):
    return x * x * x


def definition(S, name, o, f, agg=None):
    """(defined, value) of metric `name` on the valid pairs o, f (len >= 1)."""
    n = len(o)
    A = (lambda xs: ref.r_agg(S, agg, xs)) if agg else None
    mean = lambda xs: ref.r_mean(S, xs)  # noqa: E731
    ssum = lambda xs: ref.r_sum(S, xs)  # noqa: E731
    if name == "Mae":
        return True, A([S.abs(a - b) for a, b in zip(o, f)])
    if name == "Bias":
        return True, A([b - a for a, b in zip(o, f)])
    if name == "Diff":
        return True, A(f) - A(o)
    if name == "Ratio":
        den = A(o)
        return den != 0, S.div(A(f), den)
    if name == "Rmse":
        return True, S.sqrt(A([(a - b) * (a - b) for a, b in zip(o, f)]))
    if name == "Rmsf":
        import symx.values as V
        ratios = [S.div(b, a) for a, b in zip(o, f)]
        lg = [S.log(r) for r in ratios]
        inner = S.sqrt(A([x * x for x in lg]))
        # determined (in extended-real arithmetic) unless a logarithm is NaN, i.e. a ratio is negative or 0/0
        return S.all(S.not_(S.isnan(x)) for x in lg), (V.v_exp(inner) if S.symbolic else float(np.exp(inner)))
    if name == "Cmae":
        x = A([S.abs(cube(a) - cube(b)) for a, b in zip(o, f)])
        if S.symbolic:
            import symx.values as V
            return True, V.v_cbrt_pow(x)
        with np.errstate(all="ignore"):
            return True, float(np.float64(x) ** (1.0 / 3))
    if name == "Ef":
        return True, S.div(S.count(a < b for a, b in zip(o, f)), n)
    if name == "StdError":
        e = [a - b for a, b in zip(o, f)]
        return True, ref.r_std(S, e)
    if name == "ObsStdDev":
        return True, ref.r_std(S, o)
    if name == "FcstStdDev":
        return True, ref.r_std(S, f)
    if name in ("Nsec", "Nnsec"):
        mo = mean(o)
        den = ssum([(a - mo) * (a - mo) for a in o])
        nsec = 1 - S.div(ssum([(b - a) * (b - a) for a, b in zip(o, f)]), den)
        if name == "Nsec":
            return den != 0, nsec
        return den != 0, S.div(1.0, 2 - nsec)
    if name == "Kge":
        mo, mf = mean(o), mean(f)
        so, sf = ref.r_std(S, o), ref.r_std(S, f)
        # Pearson correlation in its textbook form
        sxy = ssum([(a - mo) * (b - mf) for a, b in zip(o, f)])
        sxx = ssum([(a - mo) * (a - mo) for a in o])
        syy = ssum([(b - mf) * (b - mf) for b in f])
        r = S.div(sxy, S.sqrt(sxx * syy))
        c, m, s = r - 1, S.div(mf, mo) - 1, S.div(sf, so) - 1
        return S.and_(so != 0, sf != 0, mo != 0), 1 - S.sqrt(c * c + m * m + s * s)
    if name == "Alphaindex":
        # Koh et al.: variance of the anomaly difference over the sum of variances; 0 is perfect, max 2
        mo, mf = mean(o), mean(f)
        num = ssum([((b - mf) - (a - mo)) * ((b - mf) - (a - mo)) for a, b in zip(o, f)])
        den = ssum([(b - mf) * (b - mf) + (a - mo) * (a - mo) for a, b in zip(o, f)])
        return den != 0, S.div(num, den)
    if name == "Leps":
        # mean | F_o(f_i) - F_o(o_i) |, F_o the empirical CDF of the observations
        def cdf(x):
            return S.div(S.count(a <= x for a in o), n)
        return True, mean([S.abs(cdf(b) - cdf(a)) for a, b in zip(o, f)])
    if name == "Dmb":
        return True, S.div(mean(o), mean(f))
    if name == "Mbias":
        return mean(o) != 0, S.div(mean(f), mean(o))
    if name == "Corr":
        if n <= 1:
            return False, float("nan")
        mo, mf = mean(o), mean(f)
        sxy = ssum([(a - mo) * (b - mf) for a, b in zip(o, f)])
        sxx = ssum([(a - mo) * (a - mo) for a in o])
        syy = ssum([(b - mf) * (b - mf) for b in f])
        return S.and_(sxx != 0, syy != 0), S.div(sxy, S.sqrt(sxx * syy))
    if name == "DError":
        so, sf = ref.r_sorted(S, o), ref.r_sorted(S, f)
        return True, mean([S.abs(a - b) for a, b in zip(so, sf)])
    raise ValueError(name)


def check_metric(S, m, name, obs, fcst, agg=None, tag=None):
    tag = tag or name
    got = m.compute_from_obs_fcst(obs, fcst)
    S.observe("score", got)
    o, f = valid_pairs(S, obs, fcst)
    if len(o) == 0:
        S.prove("no-valid-pair-is-nan", S.isnan(got), twin=S.not_(S.isnan(got)))
        return
    defined, want = definition(S, name, o, f, agg)
    S.prove("definition=%s" % tag, S.implies(defined, S.same(got, want)),
            twin=S.implies(defined, S.same(got, want + 1)))
    if agg not in ("count", "change", "abschange"):
        # (-agg count turns any metric into a count of valid values, change/abschange
        # look at the first and last element only: neither is a statistic of all pairs)
        S.prove("undefined-not-a-number=%s" % tag, S.implies(S.not_(defined), S.not_(S.isfinite(got))))
    # nothing beats the perfect score (order-preserving aggregators only)
    if name in ERROR_SKILL and m.perfect_score is not None and (agg is None or agg in ref.ORDER_PRESERVING):
        if m.orientation == -1:
            S.prove("not-better-than-perfect=%s" % name, S.or_(S.isnan(got), got >= m.perfect_score))
        elif m.orientation == 1:
            S.prove("not-better-than-perfect=%s" % name, S.or_(S.isnan(got), got <= m.perfect_score))


def h_agg_metrics(N):
    def fn(S):
        metric = load.modules["verif.metric"]
        aggmod = load.modules["verif.aggregator"]
        menu = ref.agg_menu()
        k = S.choose("metric", len(AGG_METRICS))
        a = S.choose("agg", len(menu))
        n = S.choose("n", N + 1)
        name, agg = AGG_METRICS[k], menu[a]
        m = getattr(metric, name)()
        m.aggregator = ref.make_aggregator(aggmod, agg)
        obs = S.array("obs", n, nan=True)
        fcst = S.array("fcst", n, nan=True)
        check_metric(S, m, name, obs, fcst, agg, tag="%s/%s" % (name, agg))
    return fn


NONLINEAR = {"StdError", "ObsStdDev", "FcstStdDev", "Nsec", "Nnsec", "Kge", "Alphaindex", "Corr"}


def h_plain_metrics(N):
    def fn(S):
        metric = load.modules["verif.metric"]
        k = S.choose("metric", len(PLAIN_METRICS))
        name = PLAIN_METRICS[k]
        # metrics whose obligations are non-linear get one pair less (solver reach)
        n = S.choose("n", (N if name in NONLINEAR else N + 1))
        m = getattr(metric, name)()
        obs = S.array("obs", n, nan=True)
        fcst = S.array("fcst", n, nan=True)
        check_metric(S, m, name, obs, fcst)
    return fn


def h_perfect(N):
    """A forecast identical to the observations attains perfect_score (or the
    metric is undefined there)."""
    def fn(S):
        metric = load.modules["verif.metric"]
        k = S.choose("metric", len(ERROR_SKILL))
        n = 1 + S.choose("n", N)
        name = ERROR_SKILL[k]
        m = getattr(metric, name)()
        obs = S.array("obs", n, nan=False)
        fcst = obs.copy()
        got = m.compute_from_obs_fcst(obs, fcst)
        S.observe("score", got)
        S.prove("perfect-forecast=%s" % name, S.or_(S.not_(S.isfinite(got)), S.same(got, float(m.perfect_score))),
                twin=S.or_(S.not_(S.isfinite(got)), S.same(got, float(m.perfect_score) + 1)))
    return fn


def h_within_cond(N):
    def fn(S):
        metric = load.modules["verif.metric"]
        util = load.modules["verif.util"]
        field = load.modules["verif.field"]
        which = S.choose("metric", 4)
        b = S.choose("bin", len(BIN_TYPES))
        bin_type = BIN_TYPES[b]
        t1, t2 = S.real("t1"), S.real("t2")
        iv = util.get_intervals(bin_type, S.vector([t1, t2]))[0]
        obs = S.array("obs", N, nan=True)
        fcst = S.array("fcst", N, nan=True)
        o, f = S.elements(obs), S.elements(fcst)
        if which == 0:
            got = metric.Within().compute_from_obs_fcst(obs, fcst, iv)
            S.observe("within", got)
            diffs = [S.abs(a - c) for a, c in zip(o, f)]
            valid = [S.not_(S.isnan(d)) for d in diffs]
            nvalid = S.count(valid)
            hits = S.count(S.and_(v, event(S, d, bin_type, t1, t2)) for v, d in zip(valid, diffs))
            S.prove("within=%s" % bin_type, S.implies(nvalid > 0, S.same(got, S.div(hits * 100.0, nvalid))),
                    twin=S.implies(nvalid > 0, S.same(got, S.div(hits * 100.0, nvalid) + 1)))
            S.prove("within.no-valid-is-nan", S.implies(nvalid == 0, S.isnan(got)))
            return
        sel = [i for i in range(N) if bool(S.and_(S.not_(S.isnan(o[i])), event(S, o[i], bin_type, t1, t2)))]
        if which == 1:
            got = metric.Conditional().compute_from_obs_fcst(obs, fcst, iv)
            want = ref.r_mean(S, [f[i] for i in sel]) if sel else float("nan")
            lab = "conditional-mean-fcst-given-obs"
        elif which == 2:
            got = metric.XConditional().compute_from_obs_fcst(obs, fcst, iv)
            want = ref.r_median(S, [o[i] for i in sel]) if sel else float("nan")
            lab = "xconditional-median-obs"
        else:
            got = metric.Count(field.Obs())
            # Count has no compute_from_obs_fcst: emulate the data request
            class _D(object):
                def get_scores(self, *a, **k):
                    return obs
            got = got.compute_single(_D(), 0, None, None, iv)
            want = float(len(sel)) if sel else float("nan")
            lab = "count-in-interval"
        S.observe(lab, got)
        S.prove(lab, S.same(got, want), twin=S.same(got, want + 1) if sel else None)
    return fn


def h_rank(N):
    """rankcorr = Spearman's rho (Pearson correlation of average ranks),
    kendallcorr = Kendall's tau-b, on the valid pairs.  SciPy is a validated
    library model under the engine (symx.arrays.m_spearmanr / m_kendalltau); the
    oracle is written independently in harness/ref.py."""
    def fn(S):
        metric = load.modules["verif.metric"]
        which = S.choose("metric", 2)
        n = S.choose("n", N + 1)
        m = metric.RankCorr() if which == 0 else metric.KendallCorr()
        name = "rankcorr" if which == 0 else "kendallcorr"
        obs = S.array("obs", n, nan=True)
        fcst = S.array("fcst", n, nan=True)
        got = m.compute_from_obs_fcst(obs, fcst)
        S.observe(name, got)
        o, f = valid_pairs(S, obs, fcst)
        if len(o) <= 1:
            S.prove("%s.too-few-pairs-is-nan" % name, S.isnan(got))
            return
        want, defined = (ref.r_spearman if which == 0 else ref.r_kendall_b)(S, o, f)
        # the ranks are concrete on each path, so both sides are computed from doubles: compare with S.close
        S.prove("definition=%s" % name, S.implies(defined, S.close(got, want)), twin=S.implies(defined, S.close(got, want + 1)))
        S.prove("undefined-not-a-number=%s" % name, S.implies(S.not_(defined), S.not_(S.isfinite(got))))
        S.prove("perfect-forecast=%s" % name, S.implies(S.and_(defined, S.all(S.same(a, b) for a, b in zip(o, f))), S.close(got, 1.0)))
    return fn


def h_via_data(T, P):
    """ObsFcstBased.compute_single and FromField.compute_single on a real Data
    object: `-x obs` / `-x fcst` restrict the pairs to those whose observation
    / forecast lies in the interval; obs / fcst statistics use their own field
    (plus the conditioning field)."""
    def fn(S):
        from harness import common
        data = load.modules["verif.data"]
        metric = load.modules["verif.metric"]
        util = load.modules["verif.util"]
        ax = load.modules["verif.axis"]
        aggmod = load.modules["verif.aggregator"]
        MI = common.input_class()
        shape = (T, 1, P)
        obs, fcst = S.array("obs", shape), S.array("fcst", shape)
        inp = MI("A.txt", common.int_array(S, [86400 * i for i in range(T)]), S.vector([0.0]),
                 common.locations(list(range(1, P + 1))), obs=obs.copy(), fcst=fcst.copy())
        D = data.Data([inp])
        name = ["Mae", "Bias", "Obs", "Fcst"][S.choose("metric", 4)]
        axname = ["obs", "fcst", "no"][S.choose("axis", 3)]
        agg = ["mean", "max"][S.choose("agg", 2)]
        bt = ["within", "above="][S.choose("bin", 2)]
        t1, t2 = S.real("t1"), S.real("t2")
        iv = util.get_intervals(bt, S.vector([t1, t2]))[0]
        m = getattr(metric, name)()
        m.aggregator = ref.make_aggregator(aggmod, agg)
        axis = {"obs": ax.Obs(), "fcst": ax.Fcst(), "no": ax.No()}[axname]
        got = m.compute(D, 0, axis, iv)
        S.observe("score", got)
        S.prove("one-value", len(got) == 1)
        cells = [(t, 0, p) for t in range(T) for p in range(P)]

        def present(x):
            return S.not_(S.isnan(x))
        sel = []
        for c in cells:
            need_obs = name != "Fcst" or axname == "obs"
            need_fcst = name != "Obs" or axname == "fcst"
            ok = S.and_(present(obs[c]) if need_obs else True, present(fcst[c]) if need_fcst else True)
            if axname == "obs":
                ok = S.and_(ok, event(S, obs[c], bt, t1, t2))
            elif axname == "fcst":
                ok = S.and_(ok, event(S, fcst[c], bt, t1, t2))
            if bool(ok):
                sel.append(c)
        tag = "%s/%s/-x %s/%s" % (name, agg, axname, bt)
        if not sel:
            S.prove("no-selected-pair-is-not-a-number", S.not_(S.isfinite(got[0])), detail=tag)
            return
        o = [obs[c] for c in sel]
        f = [fcst[c] for c in sel]
        if name == "Mae":
            want = ref.r_agg(S, agg, [S.abs(a - b) for a, b in zip(o, f)])
        elif name == "Bias":
            want = ref.r_agg(S, agg, [b - a for a, b in zip(o, f)])
        elif name == "Obs":
            want = ref.r_agg(S, agg, o)
        else:
            want = ref.r_agg(S, agg, f)
        S.prove("conditional-score=definition-on-the-selected-pairs", S.same(got[0], want), twin=S.same(got[0], want + 1), detail=tag)
    return fn


def harnesses(tier):
    thorough = tier == "thorough"
    return [
        Harness("agg_metrics", h_agg_metrics(3 if thorough else 2), "7 aggregator-supporting metrics x 18 aggregators"),
        Harness("plain_metrics", h_plain_metrics(4 if thorough else 3), "13 metrics without aggregator"),
        Harness("perfect", h_perfect(4 if thorough else 3), "forecast == observation attains perfect_score"),
        Harness("within_cond", h_within_cond(3 if thorough else 2), "Within, Conditional, XConditional, Count"),
        Harness("rank", h_rank(3), "RankCorr / KendallCorr vs Spearman's rho / Kendall's tau-b"),
        Harness("via_data", h_via_data(2, 2 if thorough else 1), "-x obs / -x fcst and obs / fcst statistics through Data"),
    ]
