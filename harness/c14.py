"""C14 -- anomaly scores use the climatology at the same coordinates.

Kernel: Data.__init__ (clim appended last, excluded from num_inputs / names),
get_scores clim branch (subtract / divide on obs and fcst only), _get_score,
_apply_axis; Metric.compute for the shift-invariance relation."""
import numpy as np

from symx.explore import Harness
from symx import load
from harness import common

BOUNDS = {
    "quick": {"inputs": "1-2 inputs + climatology, 2x1x2 cells real-or-NaN; climatology with differing coverage/order in one variant",
              "relation": "mae, rmse, bias, stderror on axes No and Location"},
    "thorough": {"inputs": "2 inputs + climatology, 2x2x2 cells", "relation": "mae, rmse, bias, stderror on axes No, Location, Time"},
}
ASSUMPTIONS = ["stored values are real numbers or NaN", "the climatology's differing coverage is concrete (symbolic coordinates: C02)"]
STUBS = ["inputs are in-memory verif.input.Input subclasses"]


def build(S, n, T, L, P, coverage):
    MI = common.input_class()
    times = [86400 * i for i in range(T)]
    lts = [0.0, 30.0][:L]
    ids = list(range(1, P + 1))
    ins, store = [], []
    for k in range(n + 1):
        nm = "X" if k == n else "in%d" % k
        tk, pk = list(times), list(ids)
        if coverage and k == n:
            tk = times[::-1] + [10 * 86400]        # other order, one extra time
            pk = [77] + ids[::-1]                  # other order, one extra location
        shape = (len(tk), L, len(pk))
        obs = S.array(nm + ".obs", shape)
        fcst = S.array(nm + ".fcst", shape)
        extra = S.array(nm + ".extra", shape)
        ins.append(MI(nm + ".txt", common.int_array(S, tk), S.vector(lts), common.locations(pk),
                      obs=obs, fcst=fcst, others={"extra": extra}))
        d = {}
        for fname, arr in (("obs", obs), ("fcst", fcst), ("extra", extra)):
            d[fname] = {(t, l, p): arr[tk.index(tv), l, pk.index(pid)]
                        for t, tv in enumerate(times) for l in range(L) for p, pid in enumerate(ids)}
        store.append(d)
    return ins[:-1], ins[-1], store[:-1], store[-1]


def h_anomaly(n, T, L, P, coverage):
    def fn(S):
        data = load.modules["verif.data"]
        f = load.modules["verif.field"]
        ax = load.modules["verif.axis"]
        inputs, clim, store, cstore = build(S, n, T, L, P, coverage)
        ctype = ["subtract", "divide"][S.choose("clim_type", 2)]
        kw = {}
        if coverage:
            # -tod / -d that keep every time: the climatology (other order, extra entries) stays aligned by coordinates
            sel = S.choose("time-selection", 3)
            if sel == 1:
                kw = {"tods": [0]}
            elif sel == 2:
                kw = {"dates": [19700101 + i for i in range(T)] + [19700111]}
        D = data.Data(inputs, clim=clim, clim_type=ctype, **kw)
        S.prove("climatology-is-not-a-scored-input", D.num_inputs == n and D.get_names() == [i.name for i in inputs]
                and D.get_legend() == [i.name for i in inputs] and D.get_full_names() == [i.fullname for i in inputs]
                and len(D.get_short_names()) == n)
        fs = S.choose("fields", 4)
        names = [("obs", "fcst"), ("obs",), ("fcst", "extra"), ("extra",)][fs]
        fobj = {"obs": f.Obs(), "fcst": f.Fcst(), "extra": f.Other("extra")}
        cells = [(t, l, p) for t in range(T) for l in range(L) for p in range(P)]
        for k in range(n):
            res = D.get_scores([fobj[x] for x in names], k, ax.All(), None)
            for j, nmf in enumerate(names):
                S.observe("r%d.%s" % (k, nmf), res[j])
                S.prove("shape", tuple(res[j].shape) == (T, L, P))
                for c in cells:
                    got = res[j][c]
                    x = cstore["fcst"][c]
                    raw = store[k][nmf][c]
                    if nmf in ("obs", "fcst"):
                        want = (raw - x) if ctype == "subtract" else S.div(raw, x)
                    else:
                        want = raw
                    present = S.not_(S.isnan(got))
                    tag = "%s/%s" % (nmf, ctype)
                    S.prove("anomaly-value=%s" % tag, S.implies(present, S.same(got, want)),
                            twin=S.implies(present, S.same(got, want + 1)))
                    if "obs" in names or "fcst" in names:
                        S.prove("dropped-when-climatology-missing", S.implies(S.isnan(x), S.not_(present)),
                                twin=S.implies(S.isnan(x), present))
                    S.prove("never-a-non-finite-number", S.or_(S.not_(present), S.isfinite(got)))
                    # identical pattern for every input and field of the request
                    S.prove("same-cases-for-every-input", S.iff(present, S.not_(S.isnan(res[0][c]))))
                    if nmf in ("obs", "fcst"):
                        needed = S.and_(S.not_(S.isnan(raw)), S.not_(S.isnan(x)), S.isfinite(want))
                        S.prove("only-if-defined=%s" % tag, S.implies(present, needed), twin=S.not_(present))
    return fn


def h_obsrange(T, P):
    """-c / -C together with -obsrange: the range selects cases by the *measured* observation (the statement's
    "climatology at the same coordinates" is removed afterwards); a case whose observation lies outside the range
    is dropped for every field, and a kept case carries the anomaly."""
    def fn(S):
        data = load.modules["verif.data"]
        f = load.modules["verif.field"]
        ax = load.modules["verif.axis"]
        inputs, clim, store, cstore = build(S, 1, T, 1, P, False)
        ctype = ["subtract", "divide"][S.choose("clim_type", 2)]
        lo, hi = S.real("lo"), S.real("hi")
        S.assume(lo <= hi)
        D = data.Data(inputs, clim=clim, clim_type=ctype, obs_range=[lo, hi])
        first = S.choose("first-request", 2)
        if first:
            D.get_scores(f.Fcst(), 0, ax.No(), None)      # a request that does not involve the observations comes first
        o, fc = D.get_scores([f.Obs(), f.Fcst()], 0, ax.All(), None)
        S.observe("obs", o)
        S.observe("fcst", fc)
        for c in [(t, 0, p) for t in range(T) for p in range(P)]:
            x = cstore["fcst"][c]
            ro, rf = store[0]["obs"][c], store[0]["fcst"][c]
            inside = S.and_(ro >= lo, ro <= hi)
            for nmf, got, raw in (("obs", o[c], ro), ("fcst", fc[c], rf)):
                want = (raw - x) if ctype == "subtract" else S.div(raw, x)
                present = S.not_(S.isnan(got))
                S.prove("kept-only-if-the-measured-observation-is-inside-the-range", S.implies(present, inside),
                        twin=S.implies(present, S.not_(inside)), detail="%s/%s" % (nmf, ctype))
                S.prove("kept-case-carries-the-anomaly", S.implies(present, S.same(got, want)),
                        twin=S.implies(present, S.same(got, want + 1)), detail="%s/%s" % (nmf, ctype))
            wo = (ro - x) if ctype == "subtract" else S.div(ro, x)
            wf = (rf - x) if ctype == "subtract" else S.div(rf, x)
            # (a case is also dropped when the climatology file's own observation is missing: allowed, DESIGN 5.3 obs. 3)
            defined = S.and_(S.not_(S.isnan(ro)), S.not_(S.isnan(rf)), S.not_(S.isnan(x)), S.not_(S.isnan(cstore["obs"][c])),
                             S.isfinite(wo), S.isfinite(wf))
            S.prove("inside-and-defined-is-kept", S.implies(S.and_(inside, defined), S.not_(S.isnan(o[c]))),
                    twin=S.implies(S.and_(inside, defined), S.isnan(o[c])), detail=ctype)
    return fn


def h_designated_fields(T, P):
    """-c / -C together with -fcst FIELD (or -obs FIELD): the field designated as the forecast (observation)
    is what gets scored, so it is what the climatology is removed from; the climatology is the climatology
    file's value of the designated forecast field."""
    def fn(S):
        data = load.modules["verif.data"]
        f = load.modules["verif.field"]
        ax = load.modules["verif.axis"]
        inputs, clim, store, cstore = build(S, 1, T, 1, P, False)
        ctype = ["subtract", "divide"][S.choose("clim_type", 2)]
        which = S.choose("designated", 2)
        if which == 0:
            D = data.Data(inputs, clim=clim, clim_type=ctype, fcst_field=f.Other("extra"))
            src = {"obs": "obs", "fcst": "extra"}
            xsrc = "extra"
        else:
            D = data.Data(inputs, clim=clim, clim_type=ctype, obs_field=f.Other("extra"))
            src = {"obs": "extra", "fcst": "fcst"}
            xsrc = "fcst"
        o, fc = D.get_scores([f.Obs(), f.Fcst()], 0, ax.All(), None)
        S.observe("obs", o)
        S.observe("fcst", fc)
        tag = "%s/%s" % (["-fcst extra", "-obs extra"][which], ctype)
        for c in [(t, 0, p) for t in range(T) for p in range(P)]:
            x = cstore[xsrc][c]
            for nmf, got in (("obs", o[c]), ("fcst", fc[c])):
                raw = store[0][src[nmf]][c]
                want = (raw - x) if ctype == "subtract" else S.div(raw, x)
                present = S.not_(S.isnan(got))
                S.prove("climatology-removed-from-the-designated-%s-field" % nmf, S.implies(present, S.same(got, want)),
                        twin=S.implies(present, S.same(got, want + 1)), detail=tag)
                S.prove("only-if-defined", S.implies(present, S.and_(S.not_(S.isnan(raw)), S.not_(S.isnan(x)), S.isfinite(want))),
                        twin=S.not_(present), detail=tag)
    return fn


def h_relation(T, L, P, thorough):
    """Shift-invariant scores under -c equal those with the climatology given
    as an additional input."""
    def fn(S):
        data = load.modules["verif.data"]
        metric = load.modules["verif.metric"]
        ax = load.modules["verif.axis"]
        MI = common.input_class()
        times = [86400 * i for i in range(T)]
        lts = [0.0, 30.0][:L]
        ids = list(range(1, P + 1))
        shape = (T, L, P)
        A = {k: S.array("A." + k, shape) for k in ("obs", "fcst")}
        X = {k: S.array("X." + k, shape) for k in ("obs", "fcst")}

        def mk(nm, d):
            return MI(nm + ".txt", common.int_array(S, times), S.vector(lts), common.locations(ids),
                      obs=d["obs"].copy(), fcst=d["fcst"].copy())
        D1 = data.Data([mk("A", A)], clim=mk("X", X))
        D2 = data.Data([mk("A", A), mk("X", X)])
        mi = S.choose("metric", 4)
        name = ["Mae", "Rmse", "Bias", "StdError"][mi]
        axes = [(ax.No(), 1), (ax.Location(), P)] + ([(ax.Time(), T)] if thorough else [])
        ai = S.choose("axis", len(axes))
        axis, ns = axes[ai]
        m = getattr(metric, name)()
        s1 = m.compute(D1, 0, axis, None)
        s2 = m.compute(D2, 0, axis, None)
        S.observe("anomaly", s1)
        S.observe("extra-input", s2)
        for i in range(ns):
            S.prove("anomaly-score-equals-score-with-clim-as-input=%s" % name, S.same(s1[i], s2[i]),
                    twin=S.same(s1[i], s2[i] + 1), detail=axis.name())
    return fn


def h_sequence(T, L, P):
    """Anomalies are computed per request: a whole-array request followed by a
    score (what the driver does when it derives default thresholds) gives the
    same score as on a fresh dataset."""
    def fn(S):
        data = load.modules["verif.data"]
        metric = load.modules["verif.metric"]
        f = load.modules["verif.field"]
        ax = load.modules["verif.axis"]
        ctype = ["subtract", "divide"][S.choose("clim_type", 2)]
        inputs, clim, store, cstore = build(S, 1, T, L, P, False)
        D = data.Data(inputs, clim=clim, clim_type=ctype)
        inputs2, clim2, _, _ = build(S, 1, T, L, P, False)      # same symbols, fresh objects
        Dfresh = data.Data(inputs2, clim=clim2, clim_type=ctype)
        first = [f.Obs(), f.Fcst(), [f.Obs(), f.Fcst()]][S.choose("first", 3)]
        D.get_scores(first, 0)                                   # default axis: the whole 3-D array
        name = ["Mae", "Bias"][S.choose("metric", 2)]
        a = getattr(metric, name)().compute(D, 0, ax.No(), None)[0]
        b = getattr(metric, name)().compute(Dfresh, 0, ax.No(), None)[0]
        S.observe("score", a)
        S.prove("anomaly-score-independent-of-earlier-whole-array-request", S.same(a, b), twin=S.same(a, b + 1),
                detail="%s/%s" % (name, ctype))
        again = D.get_scores(f.Obs(), 0)
        fresh = Dfresh.get_scores(f.Obs(), 0)
        S.prove("anomalies-not-applied-twice", S.same_arrays(again, fresh))
    return fn


def harnesses(tier):
    thorough = tier == "thorough"
    T, L, P = (2, 2, 2) if thorough else (2, 1, 2)
    return [
        Harness("anomaly.plain", h_anomaly(2, T, L, P, False), "2 inputs + climatology, subtract/divide, axis All"),
        Harness("anomaly.coverage", h_anomaly(1, T, 1, P, True), "climatology in another order with extra entries"),
        Harness("relation", h_relation(T, 1, P, thorough), "-c X  vs  X as additional input"),
        Harness("sequence", h_sequence(2, 1, 1), "whole-array request, then a score, vs a fresh dataset"),
        Harness("designated_fields", h_designated_fields(2, 1), "-c / -C together with -fcst FIELD or -obs FIELD"),
        Harness("obsrange", h_obsrange(2, 1), "-c / -C together with -obsrange: the range applies to the measured observation"),
        Harness("driver_options", __import__("harness.c13", fromlist=["h_dispatch"]).h_dispatch(only=["-c", "-C"]),
                "-c / -C reach Data(clim=..., clim_type=...) and nothing else (driver.run with recorders)"),
    ]
