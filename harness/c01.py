"""C01 -- fair comparison: every input is scored on the identical set of cases.

Kernel: Data.__init__, get_scores, _get_score (obs sharing, generic branch,
cross-input propagation), _apply_axis, get_fields, on in-memory inputs whose
every obs / fcst / other cell is a symbolic real-or-NaN."""
import numpy as np

from symx.explore import Harness
from symx import load
from harness import common
from harness import shared

BOUNDS = {
    "quick": {"inputs": "2 (+ variants: input without obs, climatology, differing coverage, same coordinates in another order, obs-less input with differing coverage / order)", "shape": "2 times x 1 lead time x 2 locations",
              "requests": "5 field sets x 9 axis slices, for every input"},
    "thorough": {"inputs": "3 (+ the same variants)", "shape": "2 x 2 x 2",
                 "requests": "5 field sets x 11 axis slices, for every input"},
}
ASSUMPTIONS = [
    "stored values are real numbers or NaN (+-inf literals in a file are not a missing-value encoding; C04 covers them)",
    "coverage differences between inputs are concrete in the `coverage` variant (symbolic coordinates are C02's subject)",
]
STUBS = ["inputs are in-memory verif.input.Input subclasses (file readers are C09/C10's subject)"]

FIELDSETS = [("obs",), ("fcst",), ("obs", "fcst"), ("obs", "fcst", "other"), ("other",)]


def axis_menu(T, L, P, thorough):
    ax = load.modules["verif.axis"]
    menu = [(ax.No(), None), (ax.All(), None)]
    menu += [(ax.Time(), i) for i in range(T)]
    menu += [(ax.Location(), i) for i in range(P)]
    menu += [(ax.Leadtime(), i) for i in range(L)]
    menu += [(ax.Leadtimeday(), 0), (ax.Month(), 0)]
    if thorough:
        menu += [(ax.Year(), 0), (ax.Lat(), P - 1)]
    return menu


def slice_cells(axis, idx, T, L, P, times, leadtimes):
    """Cells (t, l, p) of a slice in the order the arrays are flattened."""
    ax = load.modules["verif.axis"]
    cells = [(t, l, p) for t in range(T) for l in range(L) for p in range(P)]
    name = axis.name()
    if name in ("No", "All"):
        return cells
    if name == "Time":
        return [c for c in cells if c[0] == idx]
    if name in ("Location", "Lat", "Lon", "Elev"):
        return [c for c in cells if c[2] == idx]
    if name == "Leadtime":
        return [c for c in cells if c[1] == idx]
    if name == "Leadtimeday":
        days = sorted(set(int(lt / 24) for lt in leadtimes))
        return [c for c in cells if int(leadtimes[c[1]] / 24) == days[idx]]
    if name in ("Month", "Year"):
        # all harness times lie in January 1970
        return cells if idx == 0 else []
    raise ValueError(name)


def field_objs(names):
    f = load.modules["verif.field"]
    m = {"obs": f.Obs(), "fcst": f.Fcst(), "other": f.Other("extra")}
    return [m[n] for n in names]


def build_inputs(S, variant, n, T, L, P):
    MI = common.input_class()
    times_v = [86400 * i for i in range(T)]
    lts_v = [6.0 * i * 3 for i in range(L)] if L > 1 else [0.0]   # 0, 18 -> same lead-time day; thorough: 0 and 18
    if L == 2:
        lts_v = [0.0, 30.0]
    ids = list(range(1, P + 1))
    inputs = []
    store = []     # per input: dict field -> array indexed by common (t, l, p)
    for k in range(n):
        nm = "in%d" % k
        has_obs = not (variant.startswith("noobs") and k == n - 1)
        tk, pk = list(times_v), list(ids)
        if variant in ("coverage", "noobs+coverage") and k == n - 1:
            # last input: one extra time in front, locations reversed plus an extra one
            tk = [-86400] + times_v
            pk = [99] + ids[::-1]
        if variant in ("reordered", "noobs+reordered") and k == n - 1:
            # last input: the same times and locations as the others, stored in the opposite order
            tk = times_v[::-1]
            pk = ids[::-1]
        shape = (len(tk), L, len(pk))
        obs = S.array(nm + ".obs", shape) if has_obs else None
        fcst = S.array(nm + ".fcst", shape)
        other = S.array(nm + ".extra", shape)
        inputs.append(MI(nm + ".txt", common.int_array(S, tk), S.vector(lts_v), common.locations(pk),
                         obs=obs, fcst=fcst, others={"extra": other}))

        def pick(arr, tk=tk, pk=pk):
            if arr is None:
                return None
            out = {}
            a = np.asarray(arr, dtype=object) if S.symbolic else arr
            for t, tv in enumerate(times_v):
                for l in range(L):
                    for p, pid in enumerate(ids):
                        out[(t, l, p)] = a[tk.index(tv), l, pk.index(pid)]
            return out
        store.append({"obs": pick(obs), "fcst": pick(fcst), "other": pick(other)})
    return inputs, store, times_v, lts_v


def h_cases(variant, n, T, L, P, thorough):
    def fn(S):
        data = load.modules["verif.data"]
        inputs, store, times_v, lts_v = build_inputs(S, variant, n, T, L, P)
        clim = None
        if variant == "clim":
            clim = inputs.pop()
            clim_store = store.pop()
        D = data.Data(inputs, clim=clim)
        S.prove("num_inputs", D.num_inputs == len(inputs))
        menu = axis_menu(T, L, P, thorough)
        if variant == "clim":
            menu = [m for m in menu if m[0].name() == "All"]
        fs = S.choose("fields", len(FIELDSETS))
        am = S.choose("axis", len(menu))
        names = FIELDSETS[fs]
        axis, idx = menu[am]
        cells = slice_cells(axis, idx, T, L, P, times_v, lts_v)
        nin = len(inputs)
        # the inputs are queried in ascending or descending order (the first request loads the caches)
        order = list(range(nin)) if S.choose("order", 2) == 0 else list(range(nin))[::-1]
        results = [None] * nin
        for k in order:
            results[k] = D.get_scores(field_objs(names), k, axis, idx)
        for k in range(nin):
            for j, nmf in enumerate(names):
                S.observe("r%d.%s" % (k, nmf), results[k][j])
        # the obs an input is scored against: its own, or those of the first input that has them
        first_obs = [s["obs"] for s in store if s["obs"] is not None][0]

        def stored(k, nmf, c):
            if nmf == "obs":
                return (store[k]["obs"] or first_obs)[c]
            return store[k][nmf][c]

        all_stores = store + ([clim_store] if variant == "clim" else [])

        def required_present(c):
            conds = []
            for nmf in names:
                for s in all_stores:
                    if s[nmf] is not None:
                        conds.append(S.not_(S.isnan(s[nmf][c])))
            if variant == "clim" and ("obs" in names or "fcst" in names):
                conds.append(S.not_(S.isnan(clim_store["fcst"][c])))
            return S.all(conds)

        tag = "%s/%s" % ("+".join(names), axis.name())
        if axis.name() == "All":
            for k in range(nin):
                for j, nmf in enumerate(names):
                    arr = results[k][j]
                    S.prove("all.shape", tuple(arr.shape) == (T, L, P))
                    el = {c: arr[c] for c in cells}
                    for c in cells:
                        present = S.not_(S.isnan(el[c]))
                        if variant == "clim":
                            # only-if direction + identical pattern across inputs and fields
                            S.prove("all.only-if-required-present=%s" % tag, S.implies(present, required_present(c)),
                                    twin=S.not_(present))
                            S.prove("all.same-pattern-across-inputs", S.iff(present, S.not_(S.isnan(results[0][0][c]))))
                            if nmf in ("obs", "fcst"):
                                want = stored(k, nmf, c) - clim_store["fcst"][c]
                            else:
                                want = stored(k, nmf, c)
                            S.prove("all.value=%s" % tag, S.implies(present, S.same(el[c], want)),
                                    twin=S.implies(present, S.same(el[c], want + 1)))
                        else:
                            S.prove("all.present-iff-required=%s" % tag, S.iff(present, required_present(c)),
                                    twin=S.iff(present, S.not_(required_present(c))))
                            S.prove("all.value=%s" % tag, S.implies(present, S.same(el[c], stored(k, nmf, c))),
                                    twin=S.implies(present, S.same(el[c], stored(k, nmf, c) + 1)))
            return
        valid_cells = [c for c in cells if bool(required_present(c))]
        for k in range(nin):
            for j, nmf in enumerate(names):
                arr = S.elements(results[k][j])
                if not valid_cells:
                    S.prove("empty-slice-is-single-nan", len(arr) == 1 and bool(S.isnan(arr[0])))
                    continue
                S.prove("length=%s" % tag, len(arr) == len(valid_cells))
                if len(arr) != len(valid_cells):
                    continue
                S.prove("values=%s" % tag,
                        S.all(S.same(arr[i], stored(k, nmf, c)) for i, c in enumerate(valid_cells)),
                        twin=S.same(arr[0], stored(k, nmf, valid_cells[0]) + 1))
        if "obs" in names and variant.startswith("noobs"):
            # an input without observations is scored against those of an input that has them
            # (inputs that carry their own obs column are scored against their own: `values=` above)
            j = names.index("obs")
            S.prove("obs-less-input-gets-the-shared-obs", S.same_arrays(results[nin - 1][j], results[0][j]))
    return fn


def h_noninterference(n, T, L, P):
    """Changing the non-missing forecast values of one input never changes
    another input's results."""
    def fn(S):
        data = load.modules["verif.data"]
        ax = load.modules["verif.axis"]
        MI = common.input_class()
        times = [86400 * i for i in range(T)]
        lts = [0.0] if L == 1 else [0.0, 30.0]
        ids = list(range(1, P + 1))
        shape = (T, L, P)
        A_obs, A_fcst = S.array("A.obs", shape), S.array("A.fcst", shape)
        B_obs = S.array("B.obs", shape)
        B_fcst = S.array("B.fcst", shape)
        # B2: same missingness as B, independent forecast values
        if S.symbolic:
            B2 = np.empty(shape, dtype=object)
            for idx in np.ndindex(*shape):
                key = ",".join(str(i) for i in idx)
                B2[idx] = S.real("B2.fcst[%s]" % key, nan_from="B.fcst[%s]" % key)
            from symx.arrays import sa
            B2_fcst = sa(B2)
        else:
            B2_fcst = np.zeros(shape)
            for idx in np.ndindex(*shape):
                key = ",".join(str(i) for i in idx)
                b = B_fcst[idx]
                B2_fcst[idx] = np.nan if np.isnan(b) else S.real("B2.fcst[%s]" % key)

        def mk(name, obs, fcst):
            return MI(name, common.int_array(S, times), S.vector(lts), common.locations(ids), obs=obs.copy(), fcst=fcst.copy())
        D1 = data.Data([mk("A", A_obs, A_fcst), mk("B", B_obs, B_fcst)])
        D2 = data.Data([mk("A", A_obs, A_fcst), mk("B", B_obs, B2_fcst)])
        fs = S.choose("fields", 3)
        names = FIELDSETS[fs]
        menu = [(ax.No(), None), (ax.Time(), 0), (ax.Location(), P - 1)]
        am = S.choose("axis", len(menu))
        axis, idx = menu[am]
        r1 = D1.get_scores(field_objs(names), 0, axis, idx)
        r2 = D2.get_scores(field_objs(names), 0, axis, idx)
        for j, nmf in enumerate(names):
            S.observe("r1." + nmf, r1[j])
            S.prove("other-inputs-values-do-not-matter", S.same_arrays(r1[j], r2[j]),
                    twin=S.same(S.elements(r1[j])[0], S.elements(r2[j])[0] + 1))
    return fn


def harnesses(tier):
    thorough = tier == "thorough"
    n = 3 if thorough else 2
    T, L, P = (2, 2, 2) if thorough else (2, 1, 2)
    hs = [
        Harness("cases.plain", h_cases("plain", n, T, L, P, thorough), "%d inputs with obs, fcst, other" % n),
        Harness("cases.noobs", h_cases("noobs", n, T, L, P, thorough), "last input has no observations (shared)"),
        Harness("cases.clim", h_cases("clim", n + 1 if not thorough else n, T, L, P, thorough), "with a climatology input, axis All"),
        Harness("cases.coverage", h_cases("coverage", n, T, 1, P, thorough), "last input has an extra time, reversed and extra locations"),
        Harness("cases.reordered", h_cases("reordered", n, T, 1, P, thorough), "last input stores the same times and locations in the opposite order"),
        Harness("cases.noobs.reordered", h_cases("noobs+reordered", n, T, 1, P, thorough), "last input has no observations and stores its coordinates in the opposite order"),
        Harness("cases.noobs.coverage", h_cases("noobs+coverage", n, T, 1, P, thorough), "last input has no observations, an extra time, reversed and extra locations"),
        Harness("noninterference", h_noninterference(2, T, 1, P), "independent forecast values in input B"),
        Harness("cases.ensemble", shared.h_ensemble_probability(2, 1, 2), "a probability derived from ensemble members: a case without any valid member is dropped for every input"),
    ]
    return hs
