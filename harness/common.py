"""Shared builders: in-memory verif.input.Input objects with symbolic content."""
import numpy as np

from symx import load


def input_class():
    inp = load.modules["verif.input"]
    var = load.modules["verif.variable"]

    class MemInput(inp.Input):
        """An Input populated directly (the repository's Fake helper lacks the
        `ensemble` attribute that get_fields() reads)."""
        description = "in-memory input for verification harnesses"

        def __init__(self, name, times, leadtimes, locations, obs=None, fcst=None, pit=None, ensemble=None,
                     thresholds=None, threshold_scores=None, quantiles=None, quantile_scores=None, others=None,
                     variable=None):
            self.fullname = name
            self.times = times
            self.leadtimes = leadtimes
            self.locations = locations
            self.obs = obs
            self.fcst = fcst
            self.pit = pit
            self.ensemble = ensemble
            self.thresholds = thresholds if thresholds is not None else np.array([])
            self.quantiles = quantiles if quantiles is not None else np.array([])
            self.threshold_scores = threshold_scores
            self.quantile_scores = quantile_scores
            self._others = others or {}
            self.other_fields = list(self._others.keys())
            self.variable = variable or var.Variable("Temperature", "C")

        def other_score(self, name):
            return self._others[name]
    return MemInput


def locations(ids, lats=None, lons=None, elevs=None):
    loc = load.modules["verif.location"]
    out = []
    for i, id_ in enumerate(ids):
        out.append(loc.Location(id_, 0 if lats is None else lats[i], 0 if lons is None else lons[i],
                                0 if elevs is None else elevs[i]))
    return out


def int_array(S, xs):
    """Integer coordinate vector (times) in the representation of the mode."""
    if S.symbolic:
        from symx.arrays import sa
        return sa(list(xs))
    return np.array([int(x) for x in xs], dtype=int)


def float_array(S, xs):
    return S.vector(list(xs))


def catch_exit(fn, *a, **k):
    """Run fn; returns (result, None) or (None, exit_code) for verif.util.error."""
    try:
        return fn(*a, **k), None
    except SystemExit as e:
        return None, (e.code if e.code is not None else 0)
