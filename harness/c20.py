"""C20 -- helper scripts transform files as documented (partial).

Kernel: scripts/accumulate.py (convolve + main), scripts/ens2prob.py (main),
scripts/expandverif.py (main), run with the real argparse on a patched
sys.argv.  Boundary: verif.input.get_input returns an in-memory input with
symbolic arrays, netCDF4.Dataset is a write recorder,
scipy.signal.convolve(ones kernel, 'valid') and scipy.interpolate.interp1d(kind
='zero') are library models under the engine (the replay uses SciPy itself).
NOT decided: scripts/window.py (no mechanism anchors it), on-disk encoding."""
import sys

import numpy as np

from symx.explore import Harness
from symx import load
from harness import common, ref
from harness.c10 import WDataset

BOUNDS = {
    "quick": {"accumulate": "1 x 3 x 1 and 3 x 1 x 1 series, windows none/1/2/3/4, -i on/off, both axes", "ens2prob": "1 x 1 x 2 cases, 3 members, thresholds 2, quantile levels 0, 0.5, 0.75, 1",
              "expandverif": "2 symbolic hourly init times in a 2-day window x 2 symbolic lead times, 2 locations; init hours 0,12; requested lead times 0, 0.5, 6"},
    "thorough": {"accumulate": "2 x 3 x 2 and 3 x 2 x 2", "ens2prob": "2 x 1 x 2 cases", "expandverif": "same with 3 lead times"},
}
ASSUMPTIONS = ["ensemble members are real numbers (not NaN) where the PIT / CDF oracles need a count of members",
               "expandverif: input times are whole hours, lead times whole hours"]
STUBS = ["verif.input.get_input -> in-memory input", "netCDF4.Dataset -> write recorder",
         "scipy.signal.convolve(a, ones, 'valid', method='direct') -> sliding sum model (the method argument is recorded in both modes); scipy.interpolate.interp1d(kind='zero') -> step-function model (engine only)"]


CONVOLVE_METHODS = []     # the `method` argument of every scipy.signal.convolve call of the current run (both modes)


class _Signal(object):
    @staticmethod
    def convolve(array, c, mode, method="auto"):
        from symx.arrays import sa, to_obj, elem_apply
        CONVOLVE_METHODS.append(method)
        if mode != "valid":
            raise load_unsupported("convolve mode %s" % mode)
        a = to_obj(array)
        w = [s for s in c.shape if s > 1]
        axis = [i for i, s in enumerate(c.shape) if s > 1]
        if not axis:
            return sa(a.copy())
        axis, w = axis[0], w[0]
        n = a.shape[axis] - w + 1
        shape = list(a.shape)
        shape[axis] = n
        out = np.empty(shape, dtype=object)
        for idx in np.ndindex(*shape):
            acc = 0.0
            for k in range(w):
                j = list(idx)
                j[axis] = idx[axis] + k
                acc = elem_apply(np.add, acc, a[tuple(j)])
            out[idx] = acc
        return sa(out)


def load_unsupported(msg):
    from symx.core import Unsupported
    return Unsupported(msg)


class _Interp(object):
    @staticmethod
    def interp1d(x, y, bounds_error=True, axis=-1, kind="linear", **kw):
        from symx.arrays import sa, to_obj
        if kind != "zero":
            raise load_unsupported("interp1d kind %s" % kind)
        xs = [float(v) for v in to_obj(x).reshape(-1)]
        ys = to_obj(y)

        def f(q):
            if q < xs[0] or q > xs[-1]:
                if bounds_error:
                    raise ValueError("A value in x_new is outside the interpolation range.")
                out = np.empty(np.delete(np.array(ys.shape), axis % ys.ndim), dtype=object)
                out.fill(float("nan"))
                return sa(out)
            k = max(i for i, v in enumerate(xs) if v <= q)
            return sa(np.take(ys, k, axis=axis))
        return f


class _Scipy(object):
    signal = _Signal()
    interpolate = _Interp()


class _ScipyRecording(object):
    """Concrete replay: the real SciPy; only the `method` argument of signal.convolve is recorded."""
    def __init__(self, real):
        self._real = real
        outer = self

        class Sig(object):
            def convolve(self, array, c, mode="full", method="auto"):
                CONVOLVE_METHODS.append(method)
                return real.signal.convolve(array, c, mode, method)

            def __getattr__(self, name):
                return getattr(real.signal, name)
        self.signal = Sig()

    def __getattr__(self, name):
        return getattr(self._real, name)


def run_script(S, name, argv, src):
    script = load.load_script(name)
    inp = load.modules["verif.input"]
    out = WDataset()

    class NC(object):
        default_fillvals = {"f4": 9.969209968386869e+36}

        @staticmethod
        def Dataset(fname, mode="r", **kw):
            return out
    saved = (script.netCDF4, inp.get_input, sys.argv, script.__dict__.get("scipy"))
    script.netCDF4 = NC
    inp.get_input = lambda f: src
    sys.argv = list(argv)
    del CONVOLVE_METHODS[:]
    if S.symbolic and "scipy" in script.__dict__:
        script.scipy = _Scipy()
    elif "scipy" in script.__dict__:
        script.scipy = _ScipyRecording(saved[3])
    code = None
    try:
        script.main()
    except SystemExit as e:
        code = e.code if e.code is not None else 0
    finally:
        script.netCDF4, inp.get_input, sys.argv = saved[0], saved[1], saved[2]
        if saved[3] is not None:
            script.scipy = saved[3]
    return out, code


def make_src(S, T, L, P, ens=0, nan=True, times=None, lts=None):
    MI = common.input_class()
    var = load.modules["verif.variable"]
    shape = (T, L, P)
    obs, fcst = S.array("obs", shape, nan=nan), S.array("fcst", shape, nan=nan)
    lats = [S.real("lat%d" % i, lo=-90, hi=90) for i in range(P)]
    lons = [S.real("lon%d" % i, lo=-180, hi=180) for i in range(P)]
    elevs = [S.real("elev%d" % i, lo=0, hi=3000) for i in range(P)]
    ids = [7, 3][:P]
    times = times if times is not None else [86400 * i for i in range(T)]
    lts = lts if lts is not None else [6.0 * i for i in range(L)]
    kw = {}
    if ens:
        kw["ensemble"] = S.array("ens", shape + (ens,), nan=False)
    src = MI("in.txt", common.int_array(S, times), S.vector(lts), common.locations(ids, lats, lons, elevs),
             obs=obs.copy(), fcst=fcst.copy(), variable=var.Variable("Precip", "$mm$"), **kw)
    meta = {"ids": ids, "lats": lats, "lons": lons, "elevs": elevs, "times": times, "lts": lts, "obs": obs, "fcst": fcst,
            "ens": kw.get("ensemble")}
    return src, meta


def check_preserved(S, out, meta, what=("time", "leadtime", "location", "lat", "lon", "altitude")):
    V_ = out.variables
    want = {"time": list(meta["times"]), "leadtime": list(meta["lts"]),
            "location": [float(i) for i in meta["ids"]], "lat": meta["lats"], "lon": meta["lons"], "altitude": meta["elevs"]}
    for name in what:
        ok = name in V_ and V_[name].value is not None
        S.prove("written=%s" % name, ok)
        if ok:
            got = S.elements(V_[name].value) if hasattr(V_[name].value, "shape") else list(V_[name].value)
            S.prove("preserved=%s" % name, len(got) == len(want[name]) and bool(S.all(S.same(a, b) for a, b in zip(got, want[name]))))
    S.prove("metadata-preserved", out.attrs.get("units") == "mm" and
            (out.attrs.get("long_name") == "Precip" or out.attrs.get("standard_name") == "Precip"))


def h_accumulate(shape_lead, shape_time):
    def fn(S):
        axis_name = ["leadtime", "time"][S.choose("axis", 2)]
        T, L, P = shape_lead if axis_name == "leadtime" else shape_time
        n = L if axis_name == "leadtime" else T
        w = [None, 1, 2, 3, 4][S.choose("window", 5)]
        ignore = bool(S.choose("ignore", 2))
        src, meta = make_src(S, T, L, P)
        argv = ["accumulate", "in.txt", "out.nc", "-x", axis_name] + (["-w", str(w)] if w is not None else []) + (["-i"] if ignore else [])
        out, code = run_script(S, "accumulate", argv, src)
        tag = "%s/w=%s%s" % (axis_name, w, "/i" if ignore else "")
        if w is not None and w > n:
            S.prove("window-longer-than-series-is-rejected", code is not None and code != 0, detail=tag)
            return
        S.prove("completes", code is None and out.closed, detail=tag)
        if code is not None:
            return
        check_preserved(S, out, meta)
        if w is not None and w > 1 and not ignore:
            # One documented fact about SciPy: signal.convolve(method='auto') switches to the FFT when it estimates it
            # to be faster (e.g. 20 x 50 x 10 values, window 24), and the FFT spreads a single missing value over
            # other windows and other series.  The sliding sum is only "each series over its trailing window" when
            # the direct method is asked for.
            S.prove("windowed-sum-does-not-leave-the-method-to-scipy(fft-spreads-missing-values)",
                    len(CONVOLVE_METHODS) == 2 and all(m == "direct" for m in CONVOLVE_METHODS), detail=tag)
        for name in ("obs", "fcst"):
            got = out.variables[name].value
            raw = meta[name]
            S.observe(name, got)
            for t in range(T):
                for l in range(L):
                    for p in range(P):
                        k = l if axis_name == "leadtime" else t

                        def cell(j):
                            return raw[(t, j, p)] if axis_name == "leadtime" else raw[(j, l, p)]

                        def val(x):
                            return S.ite(S.isnan(x), 0.0, x) if ignore else x
                        if w is None:
                            want = S.sum(val(cell(j)) for j in range(k + 1))
                        elif w == 1:
                            want = cell(k)
                        elif k < w - 1:
                            want = float("nan")
                        else:
                            want = S.sum(val(cell(j)) for j in range(k - w + 1, k + 1))
                        S.prove("trailing-sum=%s" % tag, S.same(got[t, l, p], want), twin=S.same(got[t, l, p], want + 1) if not (w and k < (w or 0) - 1) else None)
        # the input object is not modified
        S.prove("input-untouched", S.same_arrays(src.obs, meta["obs"]) and S.same_arrays(src.fcst, meta["fcst"]))
    return fn


def h_ens2prob(T, P, M):
    def fn(S):
        src, meta = make_src(S, T, 1, P, ens=M)
        # thresholds in increasing or in another order on the command line: each cdf column belongs to the
        # threshold written at the same position
        thr, rarg = [([1.0, 2.5], "1,2.5"), ([2.5, 1.0], "2.5,1")][S.choose("threshold-order", 2)]
        qs = [0.0, 0.5, 0.75, 1.0]
        out, code = run_script(S, "ens2prob", ["ens2prob", "in.txt", "out.nc", "-r", rarg, "-q", "0,0.5,0.75,1", "-p"], src)
        S.prove("completes", code is None and out.closed)
        if code is not None:
            return
        check_preserved(S, out, meta)
        for name in ("obs", "fcst"):
            S.prove("untransformed-field-preserved=%s" % name, S.same_arrays(out.variables[name].value, meta[name]))
        cdf, x, pit = out.variables["cdf"].value, out.variables["x"].value, out.variables["pit"].value
        S.prove("thresholds-and-quantiles-written", [float(v) for v in out.variables["threshold"].value] == thr and
                [float(v) for v in out.variables["quantile"].value] == qs)
        for t in range(T):
            for p in range(P):
                mem = [meta["ens"][t, 0, p, m] for m in range(M)]
                lo, hi = ref.r_min(S, mem), ref.r_max(S, mem)
                c = [cdf[t, 0, p, i] for i in range(len(thr))]
                S.observe("cdf", c)
                S.prove("cdf-in-unit-interval", S.all(S.and_(v >= 0, v <= 1) for v in c), twin=c[0] > 1)
                lo_i, hi_i = (0, 1) if thr[0] < thr[1] else (1, 0)
                S.prove("cdf-never-decreases-with-threshold", c[lo_i] <= c[hi_i], twin=c[lo_i] > c[hi_i])
                S.prove("cdf=fraction-of-members-below", S.all(S.same(c[i], S.div(S.count(v < thr[i] for v in mem), M)) for i in range(len(thr))))
                q = [x[t, 0, p, i] for i in range(len(qs))]
                S.observe("x", q)
                S.prove("quantiles-never-decrease-with-level", S.all(q[i] <= q[i + 1] for i in range(len(qs) - 1)), twin=q[0] > q[1])
                S.prove("quantiles-within-ensemble-range", S.all(S.and_(v >= lo, v <= hi) for v in q), twin=q[0] > hi)
                S.prove("extreme-quantiles-are-extreme-members", S.and_(S.same(q[0], lo), S.same(q[-1], hi)))
                o = meta["obs"][t, 0, p]
                S.observe("pit", pit[t, 0, p])
                S.prove("pit-missing-where-observation-missing", S.implies(S.isnan(o), S.isnan(pit[t, 0, p])),
                        twin=S.implies(S.isnan(o), S.not_(S.isnan(pit[t, 0, p]))))
                S.prove("pit=fraction-of-members-below-the-observation",
                        S.implies(S.not_(S.isnan(o)), S.same(pit[t, 0, p], S.div(S.count(v < o for v in mem), M))),
                        twin=S.implies(S.not_(S.isnan(o)), S.same(pit[t, 0, p], S.div(S.count(v < o for v in mem), M) + 1)))
    return fn


def h_expandverif(nl):
    def fn(S):
        # input: 2 init times (whole hours in a 2-day window), 2 lead times (whole hours)
        hk = [S.integer("t%d.hour" % i, lo=0, hi=47) for i in range(2)]
        S.assume(hk[0] < hk[1])
        times = [h * 3600 for h in hk]
        lk = [S.integer("l%d.hour" % i, lo=0, hi=36) for i in range(2)]
        S.assume(lk[0] < lk[1])
        lts = [1.0 * l for l in lk] if not S.symbolic else lk
        src, meta = make_src(S, 2, 2, 2, times=times, lts=lts)
        init_hours = [0, 12]
        req_lts = [0, 0.5, 6, 24][:nl]      # 0.5: no whole-hour input can match it
        out, code = run_script(S, "expandverif", ["expandverif", "in.txt", "-o", "out.nc", "-i", "0,12", "-lt", ",".join(str(v) for v in req_lts)], src)
        S.prove("completes", code is None and out.closed)
        if code is not None:
            return
        got = out.variables["obs"].value
        otimes = S.elements(out.variables["time"].value)
        S.observe("otimes", otimes)
        S.prove("requested-lead-times-written", [float(v) for v in out.variables["leadtime"].value] == [float(v) for v in req_lts])
        check_preserved(S, out, meta, what=("location", "lat", "lon", "altitude"))
        # output init times: every whole day of the input times x every requested init hour
        days = []
        for h in hk:
            d = h // 24
            if not any(bool(d == e) for e in days):
                days.append(d)
        want_times = [d * 86400 + ih * 3600 for ih in init_hours for d in sorted(days, key=lambda v: 0 if bool(v == 0) else 1)]
        S.prove("init-times=whole-days-x-init-hours", len(otimes) == len(want_times) and
                bool(S.all(S.same(a, b) for a, b in zip(otimes, want_times))))
        fill = 9.969209968386869e+36
        for ti in range(len(otimes)):
            for li, lt in enumerate(req_lts):
                valid = otimes[ti] + lt * 3600
                for p in range(2):
                    # the source observation whose valid time matches (first in time-major order), else fill value
                    want = fill
                    for a in reversed(range(2)):
                        for b in reversed(range(2)):
                            match = (times[a] + lk[b] * 3600) == valid
                            want = S.ite(match, meta["obs"][a, b, p], want)
                    S.prove("obs-placed-where-valid-time-matches-and-nowhere-else", S.same(got[ti, li, p], want),
                            twin=S.same(got[ti, li, p], want + 1))
    return fn


def harnesses(tier):
    thorough = tier == "thorough"
    return [
        Harness("accumulate", h_accumulate((2, 3, 2) if thorough else (1, 3, 1), (3, 2, 2) if thorough else (3, 1, 1)),
                "trailing sums / cumulative sums, incomplete windows missing, -i"),
        Harness("ens2prob", h_ens2prob(2 if thorough else 1, 2, 3), "cdf, quantiles, PIT from the ensemble"),
        Harness("expandverif", h_expandverif(4 if thorough else 3), "observations placed by valid time"),
    ]
