"""C16, fourth group (`diagrams4.*`): meteo (meteogram), autocov / autocorr (with -simple).

Same boundary as the other C16 harnesses: matplotlib.pyplot is a recording
stub; what is decided are the x / y arrays handed to plot() and fill().

meteo: one input; x = valid time of the first initialisation time + lead time
(in days), one observation line, one forecast line and one line per quantile
level (ascending, whatever the order in the file or after -q), each the mean
over the initialisation times, then over the locations, that have the quantity
at that lead time (nothing when none has); grey bands between the i-th lowest and the i-th
highest quantile line."""
import numpy as np

from symx.explore import Harness
from symx import load
from symx import mplstub
from harness import common, ref

DIAGRAMS4 = ["meteo/file-order", "meteo/-q", "autocov/time", "autocov/location", "autocov/leadtime"]
# the correlation obligations are of degree 6 in the symbolic cells: 80 s and one path undecided for two cases per pair
DIAGRAMS4_THOROUGH = ["autocorr/time"]


def h_diagrams4(which, big):
    def fn(S):
        return run4(S, which, big)
    return fn


def run_auto(S, which, big):
    """autocorr / autocov with -simple: one point per ordered pair (i, j) of entries of the chosen dimension;
    x = their separation (hours for time and lead time), y = sample covariance (n - 1) / Pearson correlation of the
    errors obs - fcst over the cases where both entries have a common valid error, nothing with fewer than two."""
    data = load.modules["verif.data"]
    out = load.modules["verif.output"]
    util = load.modules["verif.util"]
    ax = load.modules["verif.axis"]
    MI = common.input_class()
    kind, dim = which.split("/")
    n_other = 3 if kind == "autocov" else 2
    shape = {"time": (2, n_other, 1), "leadtime": (n_other, 2, 1), "location": (n_other, 1, 2)}[dim]
    T, L, P = shape
    cells = list(np.ndindex(*shape))
    names = ("A.txt", "B.txt")
    lts = [0.0, 6.0, 18.0][:L]
    lats = [0.0, 0.0]
    lons = [0.0, 1.0]
    raw, ins = [], []
    conc_obs = [0.5, 1.0, 1.75, 2.5, -1.0, 3.0]
    conc_fcst = [1.5, 0.25, 2.0, 1.0, 0.5, 2.25]
    for nm in ("A", "B"):
        if nm == "A":
            obs = S.array("A.obs", shape, nan=False)
            fcst = S.array("A.fcst", shape, nan=False)
            obs[cells[0]] = S.real("A.obs?", nan=True)
            fcst[cells[-1]] = S.real("A.fcst?", nan=True)
        else:
            obs = S.const(np.array(conc_obs[:len(cells)], dtype=float).reshape(shape))
            fcst = S.const(np.array(conc_fcst[:len(cells)], dtype=float).reshape(shape))
        raw.append((obs, fcst))
        ins.append(MI(nm + ".txt", common.int_array(S, [86400 * i for i in range(T)]), S.vector(lts),
                      common.locations(list(range(1, P + 1)), lats=lats[:P], lons=lons[:P]), obs=obs.copy(), fcst=fcst.copy()))
    D = data.Data(ins)
    pl = out.Auto("corr" if kind == "autocorr" else "cov")
    pl.simple = True
    pl.axis = {"time": ax.Time(), "leadtime": ax.Leadtime(), "location": ax.Location()}[dim]
    stub = mplstub.Pyplot()
    saved = (out.mpl, util.mpl)
    out.mpl = stub
    util.mpl = stub
    try:
        pl.plot(D)
    finally:
        out.mpl, util.mpl = saved
    plots = stub.calls.find("mpl", "plot")
    series = [c for c in plots if c[3].get("label") in names]
    S.observe("curves", [[S.elements(c[2][0]), S.elements(c[2][1])] for c in series])
    S.prove("one-series-per-input-in-order", [c[3]["label"] for c in series] == list(names), detail=which)
    if [c[3]["label"] for c in series] != list(names):
        return

    def present(x):
        return not bool(S.isnan(x))

    def valid(c):
        return all(present(o[c]) and present(fc[c]) for o, fc in raw)
    N = 2
    dimi = {"time": 0, "leadtime": 1, "location": 2}[dim]
    if dim == "time":
        sep = [[abs(i - j) * 24.0 for j in range(N)] for i in range(N)]
    elif dim == "leadtime":
        sep = [[abs(lts[i] - lts[j]) for j in range(N)] for i in range(N)]
    else:
        loc = load.modules["verif.location"]
        d01 = loc.Location(1, lats[0], lons[0], 0).get_distance(loc.Location(2, lats[1], lons[1], 0)) / 1000
        sep = [[0.0, d01], [d01, 0.0]]
    others = [c for c in np.ndindex(*[shape[d] for d in range(3) if d != dimi])]

    def cell(i, o):
        c = list(o)
        c.insert(dimi, i)
        return tuple(c)
    for k, c in enumerate(series):
        xs, ys = S.elements(c[2][0]), S.elements(c[2][1])
        S.prove("one-point-per-ordered-pair", len(xs) == N * N and len(ys) == N * N, detail=which)
        if len(xs) != N * N or len(ys) != N * N:
            continue
        o, fc = raw[k]
        EQ = S.same if k == 0 else S.close
        for i in range(N):
            for j in range(N):
                S.prove("x=separation-of-the-pair", S.close(xs[i * N + j], sep[i][j]), detail=which)
                sel = [oo for oo in others if valid(cell(i, oo)) and valid(cell(j, oo))]
                y = ys[i * N + j]
                if len(sel) < 2:
                    S.prove("fewer-than-2-common-cases-give-nothing", bool(S.isnan(y)), detail=which)
                    continue
                ei = [o[cell(i, oo)] - fc[cell(i, oo)] for oo in sel]
                ej = [o[cell(j, oo)] - fc[cell(j, oo)] for oo in sel]
                mi, mj = ref.r_mean(S, ei), ref.r_mean(S, ej)
                sij = ref.r_sum(S, [(a - mi) * (b - mj) for a, b in zip(ei, ej)])
                if kind == "autocov":
                    S.prove("y=sample-covariance-of-the-errors", EQ(y, sij / (len(sel) - 1)), twin=EQ(y, sij / (len(sel) - 1) + 1), detail=which)
                else:
                    sii = ref.r_sum(S, [(a - mi) * (a - mi) for a in ei])
                    sjj = ref.r_sum(S, [(b - mj) * (b - mj) for b in ej])
                    undefined = S.or_(S.same(sii, 0), S.same(sjj, 0))
                    # r * sqrt(sii sjj) = sij, stated without the root: same sign and equal squares
                    S.prove("y=correlation-of-the-errors",
                            S.ite(undefined, S.isnan(y), S.and_(y * sij >= 0, EQ(y * y * sii * sjj, sij * sij), S.or_(S.not_(S.same(sij, 0)), S.same(y, 0)))),
                            twin=S.ite(undefined, False, EQ(y * y * sii * sjj, sij * sij + 1)), detail=which)


def run4(S, which, big):
    if which.startswith("auto"):
        return run_auto(S, which, big)
    data = load.modules["verif.data"]
    out = load.modules["verif.output"]
    util = load.modules["verif.util"]
    MI = common.input_class()
    T, L, P = (2, 2, 2) if big else (2, 2, 1)
    shape = (T, L, P)
    cells = list(np.ndindex(*shape))
    lts = [0.0, 6.0]
    # quantile levels as the file stores them: not ascending
    levels = [0.9, 0.1, 0.5]
    obs = S.array("A.obs", shape, nan=False)
    fcst = S.array("A.fcst", shape, nan=False)
    q = S.array("A.q", shape + (3,), nan=False)
    obs[cells[0]] = S.real("A.obs?", nan=True)
    obs[cells[-1]] = S.real("A.obs??", nan=True)
    fcst[cells[1]] = S.real("A.fcst?", nan=True)
    q[cells[0] + (0,)] = S.real("A.q?", nan=True)
    q[cells[-1] + (1,)] = S.real("A.q??", nan=True)
    t0 = 86400 * 365
    inp = MI("A.txt", common.int_array(S, [t0 + 86400 * i for i in range(T)]), S.vector(lts),
             common.locations(list(range(1, P + 1))), obs=obs.copy(), fcst=fcst.copy(),
             quantiles=S.const(levels), quantile_scores=q.copy())
    D = data.Data([inp])
    pl = out.Meteo()
    if which == "meteo/-q":
        want_levels = [0.9, 0.1]
        pl.quantiles = S.const([0.9, 0.1])
    else:
        want_levels = list(levels)
    stub = mplstub.Pyplot()
    saved = (out.mpl, util.mpl)
    out.mpl = stub
    util.mpl = stub
    try:
        pl.plot(D)
    finally:
        out.mpl, util.mpl = saved
    plots = stub.calls.find("mpl", "plot")
    fills = stub.calls.find("mpl", "fill")
    want_x = [(t0 + 3600 * l) / 86400.0 for l in lts]

    def present(x):
        return not bool(S.isnan(x))

    def mean_at(arr, l, extra=()):
        # "the average is used" (help text): over the initialisation times of each location that have the quantity,
        # then over the locations that have any -- the two coincide when nothing is missing
        per_loc = []
        for p in range(P):
            sel = [arr[(t, l, p) + extra] for t in range(T) if present(arr[(t, l, p) + extra])]
            if sel:
                per_loc.append(ref.r_mean(S, sel))
        return (ref.r_mean(S, per_loc) if per_loc else float("nan")), len(per_loc)

    def line(label):
        return [c for c in plots if c[3].get("label") == label]

    def check_line(label, arr, extra=()):
        cs = line(label)
        S.prove("one-line:" + label, len(cs) == 1, detail=which)
        if len(cs) != 1:
            return None
        xs, ys = S.elements(cs[0][2][0]), S.elements(cs[0][2][1])
        S.prove("one-point-per-lead-time", len(xs) == L and len(ys) == L, detail=label)
        if len(xs) != L or len(ys) != L:
            return None
        S.prove("x=valid-time-of-the-first-initialisation-time", bool(S.all(S.close(xs[l], want_x[l]) for l in range(L))), detail=label)
        for l in range(L):
            w, n = mean_at(arr, l, extra)
            if n == 0:
                S.prove("no-value-draws-nothing", bool(S.isnan(ys[l])), detail=label)
            else:
                S.prove("y=mean-over-times-then-locations-that-have-it", S.same(ys[l], w), twin=S.same(ys[l], w + 1), detail=label)
        return ys

    S.observe("lines", [[c[3].get("label"), S.elements(c[2][1])] for c in plots if c[3].get("label")])
    check_line(pl.obs_leg, obs)
    check_line("Forecast", fcst)
    order = sorted(range(len(want_levels)), key=lambda i: want_levels[i])
    ql = {}
    for i in order:
        lev = want_levels[i]
        ql[lev] = check_line("%g%%" % (lev * 100), q, (levels.index(lev),))
    labels = [c[3].get("label") for c in plots if str(c[3].get("label", "")).endswith("%")]
    S.prove("quantile-lines-in-ascending-order-and-no-others", labels == ["%g%%" % (want_levels[i] * 100) for i in order], detail=which)
    # the band between the lowest and the highest level
    n_bands = len(want_levels) // 2
    S.prove("one-band-per-pair-of-levels", len(fills) == n_bands, detail=which)
    if len(fills) == n_bands and n_bands >= 1:
        lo, hi = want_levels[order[0]], want_levels[order[-1]]
        if ql.get(lo) is not None and ql.get(hi) is not None:
            X, Y = S.elements(fills[0][2][0]), S.elements(fills[0][2][1])
            wy = [ql[lo][l] for l in range(L) if present(ql[lo][l])] + [ql[hi][l] for l in reversed(range(L)) if present(ql[hi][l])]
            S.prove("band-runs-along-the-lowest-line-and-back-along-the-highest",
                    len(Y) == len(wy) and bool(S.all(S.same(a, b) for a, b in zip(Y, wy))),
                    twin=(len(Y) == len(wy) and len(wy) > 0 and bool(S.all(S.same(a, b + 1) for a, b in zip(Y, wy)))) if wy else None, detail=which)


def harnesses(tier):
    thorough = tier == "thorough"
    return [Harness("diagrams4." + w, h_diagrams4(w, thorough), "%s diagram vs its definition" % w) for w in DIAGRAMS4 + (DIAGRAMS4_THOROUGH if thorough else [])]
