"""C13 -- command-line options mean what the help text says.

A  dispatch:   verif.driver.run argument loop with get_input / Data / output
               actions replaced by recorders: each documented option, at any
               position, changes exactly its documented slot (Data keyword or
               output attribute) and nothing else; --config acts like inline.
B  vectors:    util.parse_numbers / parse_dates on arguments whose numerals are
               symbolic decimal tokens (a, a,b, a:b, a:s:b, mixes), against the
               documented comma/colon semantics with the end point included.
C  validation: malformed / out-of-range / unknown arguments end in an error
               exit with non-zero status."""
import contextlib
import datetime as real_datetime
import io
import sys

import numpy as np

from symx.explore import Harness
from symx import load
from symx import calmodel
from harness import common

BOUNDS = {
    "quick": {"dispatch": "31 options x 3 positions, one option at a time on top of a fixed command line", "vectors": "7 shapes, numerals = decimals with <= 3 places in [-20, 20], <= 6 steps; date ranges of <= 6 days around 2024-02-28 and 2023-12-30",
              "validation": "22 malformed command lines with symbolic values where a number is involved",
              "wellformed": "all 1 554 character-class strings of <= 4 characters (6 classes), digits symbolic",
              "listing": "10 --list-* command lines x 2 input orders on two overlapping concrete inputs"},
    "thorough": {"dispatch": "31 options x 3 positions, plus all ordered pairs of 8 data options", "vectors": "same shapes, <= 10 steps, date ranges of <= 10 days",
                 "validation": "same", "wellformed": "all 9 330 class strings of <= 5 characters", "listing": "same"},
}
ASSUMPTIONS = ["numerals in vector arguments are decimals with at most 3 places (the docstring's round-off caveat); IEEE rounding inside np.arange/np.round is outside the claim",
               "get_input, Data and the output actions are recording stubs in the dispatch harness (their behaviour: C01-C12)",
               "whole arguments are character vectors of <= 4 (thorough 5) characters over the classes digit, '-', '.', ':', ',', other; digits symbolic"]
STUBS = ["verif.input.get_input -> small in-memory input or error exit for names starting with 'missing'",
         "verif.data.Data -> keyword recorder", "verif.output.Output.text/csv/plot/map/plot_rank/plot_impact/plot_mapimpact -> recorder",
         "builtin open() in verif.driver -> in-memory config file (symbolic mode) / real temp file (replay)"]


class Recorder(object):
    def __init__(self):
        self.data_kwargs = None
        self.data_inputs = None
        self.action = None
        self.pl = None
        self.metric = None


class FakeData(object):
    """Stands in for verif.data.Data in the dispatch harness."""
    rec = None

    def __init__(self, inputs, **kwargs):
        FakeData.rec.data_kwargs = kwargs
        FakeData.rec.data_inputs = inputs
        self.thresholds = np.array([0.5, 1.5])
        self.quantiles = np.array([0.1, 0.9])
        self.num_inputs = len(inputs)
        self.times = np.array([0, 86400])
        self.leadtimes = np.array([0.0, 6.0])
        self.locations = inputs[0].locations if inputs else []

    def get_fields(self):
        f = load.modules["verif.field"]
        return [f.Obs(), f.Fcst()]

    def get_scores(self, *a, **k):
        return np.array([0.0, 1.0])


@contextlib.contextmanager
def driver_stubs(S, config_lines=None):
    """Patch the boundary of driver.run (same stubs in both modes)."""
    inp = load.modules["verif.input"]
    dat = load.modules["verif.data"]
    out = load.modules["verif.output"]
    drv = load.modules["verif.driver"]
    util = load.modules["verif.util"]
    MI = common.input_class()
    rec = Recorder()
    FakeData.rec = rec

    def fake_get_input(filename):
        if str(filename).startswith("missing"):
            util.error("File '" + filename + "' is not a valid input file")
        return MI(str(filename), np.array([0, 86400]), np.array([0.0, 6.0]), common.locations([1, 2]),
                  obs=np.zeros([2, 2, 2]), fcst=np.ones([2, 2, 2]))
    saved = [(inp, "get_input", inp.get_input), (dat, "Data", dat.Data)]
    inp.get_input = fake_get_input
    dat.Data = FakeData
    actions = ["text", "csv", "plot", "map", "plot_rank", "plot_impact", "plot_mapimpact"]
    for a in actions:
        saved.append((out.Output, a, getattr(out.Output, a)))

        def make(a):
            def action(self, data):
                rec.action = a
                rec.pl = self
            return action
        setattr(out.Output, a, make(a))
    had_open = "open" in drv.__dict__
    old_open = drv.__dict__.get("open")
    if config_lines is not None:
        def fake_open(name, mode="r"):
            if str(name).startswith("missing"):
                raise IOError("no such file")
            if S.symbolic:
                return _Lines(config_lines)
            return io.StringIO("\n".join(" ".join(str(w) for w in l) for l in config_lines) + "\n")
        drv.open = fake_open
    try:
        yield rec
    finally:
        for obj, name, val in saved:
            setattr(obj, name, val)
        if config_lines is not None:
            if had_open:
                drv.open = old_open
            else:
                del drv.__dict__["open"]


class _Lines(object):
    """In-memory config file whose words may be symbolic arguments."""
    def __init__(self, lines):
        self._lines = [_Line(l) for l in lines]

    def __iter__(self):
        return iter(self._lines)


class _Line(object):
    def __init__(self, words):
        self.words = words if isinstance(words, list) else words.split()

    def split(self):
        return list(self.words)


def run_driver(argv):
    drv = load.modules["verif.driver"]
    try:
        drv.run(list(argv))
        return None
    except SystemExit as e:
        return e.code if e.code is not None else 0


def snapshot(rec):
    """Comparable view of what a run configured."""
    if rec.data_kwargs is None and rec.pl is None:
        return None
    snap = {"action": rec.action, "pl_class": type(rec.pl).__name__ if rec.pl is not None else None}
    for k, v in (rec.data_kwargs or {}).items():
        snap["data." + k] = v
    snap["data.#inputs"] = [i.fullname for i in (rec.data_inputs or [])]
    if rec.pl is not None:
        for k, v in vars(rec.pl).items():
            if k in ("_metric", "metric"):
                continue
            snap["pl." + k] = v
        m = getattr(rec.pl, "_metric", None)
        if m is not None:
            snap["metric.class"] = type(m).__name__
            snap["metric.aggregator"] = m.aggregator
    return snap


def equalish(S, a, b):
    """Structural equality with symbolic numbers compared by the solver."""
    if isinstance(a, (list, tuple, np.ndarray)) and isinstance(b, (list, tuple, np.ndarray)):
        la, lb = list(a), list(b)
        if len(la) != len(lb):
            return False
        return S.all(equalish(S, x, y) for x, y in zip(la, lb))
    if isinstance(a, (str, type(None), bool)) or isinstance(b, (str, type(None), bool)):
        if isinstance(a, (int, float)) and isinstance(b, (int, float)) and not isinstance(a, bool) and not isinstance(b, bool):
            return S.same(a, b)
        return type(a) == type(b) and a == b
    try:
        return S.same(a, b)
    except Exception:
        pass
    if hasattr(a, "__dict__") and hasattr(b, "__dict__") and type(a) == type(b):
        try:
            return a == b
        except Exception:
            return type(a) == type(b)
    return a == b


def option_table(S):
    """(name, argv words, {slot: expected value}) for each documented option."""
    ax = load.modules["verif.axis"]
    agg = load.modules["verif.aggregator"]
    f = load.modules["verif.field"]
    t = {}

    def dec(name, lo=-20, hi=20):
        return S.token_decimal(name, lo, hi)

    def pair(flag, slot, lo, hi):
        (ta, va), (tb, vb) = dec(flag + ".a", lo, hi), dec(flag + ".b", lo, hi)
        return (flag, [flag, S.arg([ta, ",", tb])], {slot: [va, vb]})
    opts = [
        pair("-latrange", "data.lat_range", -90, 90),
        pair("-lonrange", "data.lon_range", -180, 180),
        pair("-elevrange", "data.elev_range", -100, 100),
        pair("-obsrange", "data.obs_range", -50, 50),
        pair("-l", "data.locations", 0, 50),
        pair("-lx", "data.locations_x", 0, 50),
        pair("-o", "data.leadtimes", 0, 100),
        pair("-t", "data.times", 0, 100),
        pair("-xlim", "pl.xlim", -20, 20),
        pair("-ylim", "pl.ylim", -20, 20),
    ]
    (tr, vr) = dec("-r.a")
    opts.append(("-r", ["-r", S.arg([tr])], {"pl.thresholds": [vr]}))
    (tq, vq) = S.token_decimal("-q.a", 0, 1)
    opts.append(("-q", ["-q", S.arg([tq])], {"pl.quantiles": [vq]}))
    k, kv, _ = S.token("-T.n", integer=True)
    S.assume(S.and_(kv >= 1, kv <= 100))
    opts.append(("-T", ["-T", k], {"data.dim_agg_length": kv}))
    opts += [
        ("-tod", ["-tod", "6,18"], {"data.tods": [6, 18]}),
        ("-d", ["-d", "20240101,20240102"], {"data.dates": [20240101, 20240102]}),
        ("-x", ["-x", "time"], {"pl.axis": ax.Time()}),
        ("-agg", ["-agg", "median"], {"pl.aggregator": agg.Median(), "metric.aggregator": agg.Median()}),
        ("-b", ["-b", "below="], {"pl.bin_type": "below="}),
        ("-acc", ["-acc"], {"pl.show_acc": True}),
        ("-leg", ["-leg", "My_run"], {"data.legend": ["My run"]}),
        ("-Tagg", ["-Tagg", "max"], {"data.dim_agg_method": agg.Max()}),
        ("-Tx", ["-Tx", "time"], {"data.dim_agg_axis": ax.Time()}),
        ("-c", ["-c", "clim.txt"], {"data.clim": "<input clim.txt>", "data.clim_type": "subtract"}),
        ("-C", ["-C", "clim.txt"], {"data.clim": "<input clim.txt>", "data.clim_type": "divide"}),
        ("-obs", ["-obs", "fcst"], {"data.obs_field": f.Fcst()}),
        ("-fcst", ["-fcst", "obs"], {"data.fcst_field": f.Obs()}),
        ("-f", ["-f", "out.txt"], {"pl.filename": "out.txt"}),
        ("-type", ["-type", "csv"], {"action": "csv"}),
        ("-hist", ["-hist"], {"pl_class": "Hist"}),
        ("-sort", ["-sort"], {"pl_class": "Sort"}),
        ("-title", ["-title", "A_title"], {"pl.title": "A title"}),
    ]
    return opts


BASE = ["verif", "A.txt", "-m", "mae", "-type", "text"]


def h_dispatch(only=None):
    def fn(S):
        opts = option_table(S)
        if only is not None:
            opts = [o for o in opts if o[0] in only]
        oi = S.choose("option", len(opts))
        name, words, slots = opts[oi]
        pos = S.choose("position", 3)
        base = list(BASE)
        if name == "-type":
            base = ["verif", "A.txt", "-m", "mae"]
        if pos == 0:
            argv = [base[0]] + words + base[1:]
        elif pos == 1:
            argv = base[:2] + words + base[2:]
        else:
            argv = base + words
        with driver_stubs(S) as rec0:
            code0 = run_driver(base)
            s0 = snapshot(rec0)
        with driver_stubs(S) as rec1:
            code1 = run_driver(argv)
            s1 = snapshot(rec1)
        S.prove("runs-to-the-output-action", code0 is None and code1 is None and s0 is not None and s1 is not None, detail=name)
        if s0 is None or s1 is None:
            return
        if name in ("-hist", "-sort"):
            S.prove("option-effect=%s" % name, s1["pl_class"] == slots["pl_class"], detail=name)
            return
        keys = sorted(set(s0) | set(s1))
        for k in keys:
            a, b = s0.get(k, "<absent>"), s1.get(k, "<absent>")
            if k in slots:
                want = slots[k]
                if k == "data.clim":
                    S.prove("option-effect=%s" % name, b is not None and b.fullname == "clim.txt", detail=k)
                else:
                    S.prove("option-effect=%s" % name, equalish(S, b, want), detail=k)
            else:
                if k.startswith("pl.") and k[3:] in ("cmap",):
                    continue
                S.prove("no-other-slot-changes", equalish(S, a, b), detail="%s changes %s" % (name, k))
    return fn


def h_overrides():
    """Two options that write the same setting (or the same option given twice): the later one takes effect
    completely -- the command line configures exactly what the later option alone configures in the slots the
    two share, and what each alone configures elsewhere.  The later option also comes from a --config file."""
    def fn(S):
        opts = [o for o in option_table(S) if o[0] not in ("-hist", "-sort", "-type")]
        pairs = [(a, b) for a in opts for b in opts if a[0] != b[0] and set(a[2]) & set(b[2])] + \
                [(a, a) for a in opts if a[0] in ("-c", "-C", "-x", "-agg", "-b", "-Tagg")]
        pi = S.choose("pair", len(pairs))
        (n1, w1, s1_), (n2, w2, s2_) = pairs[pi]
        via_config = bool(S.choose("second-from-config", 2))
        tag = "%s then %s%s" % (n1, n2, " (config)" if via_config else "")
        with driver_stubs(S) as rec0:
            c0 = run_driver(BASE + w2)
            s0 = snapshot(rec0)
        with driver_stubs(S) as reca:
            ca = run_driver(BASE + w1)
            sa_ = snapshot(reca)
        if via_config:
            with driver_stubs(S, config_lines=[w2]) as rec1:
                c1 = run_driver(BASE + w1 + ["--config", "my.cfg"])
                s1 = snapshot(rec1)
        else:
            with driver_stubs(S) as rec1:
                c1 = run_driver(BASE + w1 + w2)
                s1 = snapshot(rec1)
        S.prove("runs-to-the-output-action", c0 is None and c1 is None and ca is None and s0 is not None and s1 is not None and sa_ is not None, detail=tag)
        if s0 is None or s1 is None or sa_ is None:
            return
        for k in sorted(set(s0) | set(s1)):
            if k.startswith("pl.") and k[3:] in ("cmap",):
                continue
            if k == "data.clim":
                a_, b_ = s1.get(k), s0.get(k)
                S.prove("later-option-takes-effect-completely", (a_ is None) == (b_ is None) and (a_ is None or a_.fullname == b_.fullname), detail="%s/%s" % (tag, k))
                continue
            if k in s2_ or k not in s1_:
                # a slot the later option writes, or one the earlier option does not touch: as with the later alone
                S.prove("later-option-takes-effect-completely", equalish(S, s1.get(k, "<absent>"), s0.get(k, "<absent>")), detail="%s/%s" % (tag, k))
            else:
                S.prove("earlier-option-keeps-its-own-slots", equalish(S, s1.get(k, "<absent>"), sa_.get(k, "<absent>")), detail="%s/%s" % (tag, k))
    return fn


def h_config():
    """Arguments read through --config act exactly as if given inline."""
    def fn(S):
        opts = option_table(S)
        picks = [o for o in opts if o[0] in ("-latrange", "-o", "-r", "-x", "-agg", "-b", "-T", "-leg")]
        oi = S.choose("option", len(picks))
        name, words, slots = picks[oi]
        inline = BASE + words
        with driver_stubs(S) as rec0:
            c0 = run_driver(inline)
            s0 = snapshot(rec0)
        with driver_stubs(S, config_lines=[words]) as rec1:
            c1 = run_driver(BASE + ["--config", "my.cfg"])
            s1 = snapshot(rec1)
        S.prove("config-run-completes", c0 is None and c1 is None and s0 is not None and s1 is not None, detail=name)
        if s0 is None or s1 is None:
            return
        for k in sorted(set(s0) | set(s1)):
            if k.startswith("pl.") and k[3:] in ("cmap",):
                continue
            S.prove("config-equals-inline", equalish(S, s0.get(k, "<absent>"), s1.get(k, "<absent>")), detail="%s/%s" % (name, k))
        with driver_stubs(S, config_lines=[words]) as rec2:
            c2 = run_driver(BASE + ["--config", "missing.cfg"])
        S.prove("unreadable-config-is-rejected", c2 is not None and c2 != 0)
    return fn


def h_listing():
    """--list-thresholds / -quantiles / -locations / -times / -dates print what is common to the inputs
    after the subsetting options, through the real Data object."""
    T0 = 1704067200 + 6 * 3600          # 2024-01-01 06:00:00 UTC
    menu = [
        (["--list-thresholds"], "Thresholds: 2.5 5 \n"),
        (["--list-quantiles"], "Quantiles: 0.5 0.9 \n"),
        (["--list-locations"], "    id     lat     lon    elev\n     2   60.50   10.25   100.0\n     3   61.00   11.00   250.5\n\n"),
        (["--list-locations", "-l", "3"], "    id     lat     lon    elev\n     3   61.00   11.00   250.5\n\n"),
        (["--list-locations", "-latrange", "60,60.75"], "    id     lat     lon    elev\n     2   60.50   10.25   100.0\n\n"),
        (["--list-times"], "%d\n%d\n\n" % (T0 + 86400, T0 + 2 * 86400)),
        (["--list-times", "-t", str(T0 + 86400)], "%d\n\n" % (T0 + 86400)),
        (["--list-dates"], "20240102 06:00:00\n20240103 06:00:00\n\n"),
        (["--list-dates", "-d", "20240103"], "20240103 06:00:00\n\n"),
        (["--list-thresholds", "--list-times"], "Thresholds: 2.5 5 \n%d\n%d\n\n" % (T0 + 86400, T0 + 2 * 86400)),
    ]

    def fn(S):
        import contextlib
        import io
        drv = load.modules["verif.driver"]
        inp = load.modules["verif.input"]
        MI = common.input_class()
        words, expected = menu[S.choose("listing", len(menu))]
        order = S.choose("order", 2)

        def mk(name, ks, ids, thr, qs):
            shape = (len(ks), 1, len(ids))
            meta = {1: (60.0, 10.0, 50.0), 2: (60.5, 10.25, 100.0), 3: (61.0, 11.0, 250.5), 4: (62.0, 12.0, 300.0)}
            return MI(name, common.int_array(S, [T0 + 86400 * k for k in ks]), S.vector([0.0]),
                      common.locations(ids, [meta[i][0] for i in ids], [meta[i][1] for i in ids], [meta[i][2] for i in ids]),
                      obs=S.const(np.ones(shape)), fcst=S.const(np.ones(shape)),
                      thresholds=S.const(thr), threshold_scores=S.const(np.ones(shape + (len(thr),)) * 0.5),
                      quantiles=S.const(qs), quantile_scores=S.const(np.ones(shape + (len(qs),))))
        files = {"A.txt": mk("A.txt", [0, 1, 2], [1, 2, 3], [1.0, 2.5, 5.0], [0.1, 0.5, 0.9]),
                 "B.txt": mk("B.txt", [1, 2, 3], [3, 2, 4], [2.5, 5.0, 10.0], [0.5, 0.9])}
        names = ["A.txt", "B.txt"][::-1] if order else ["A.txt", "B.txt"]
        old = inp.get_input
        inp.get_input = lambda f: files[f]
        lines = []
        code = None
        try:
            if S.symbolic:
                def fake_print(*a, **k):
                    lines.append(" ".join(str(x) for x in a) + k.get("end", "\n"))
                load.rebind_global(drv, "print", fake_print)
                try:
                    drv.run(["verif"] + names + words)
                except SystemExit as e:
                    code = e.code if e.code is not None else 0
                text = "".join(lines)
            else:
                buf = io.StringIO()
                try:
                    with contextlib.redirect_stdout(buf):
                        drv.run(["verif"] + names + words)
                except SystemExit as e:
                    code = e.code if e.code is not None else 0
                text = buf.getvalue()
        finally:
            inp.get_input = old
        S.observe("printed", text)
        S.prove("listing-completes", code is None, detail=" ".join(words))
        S.prove("listing-prints-what-is-common-after-subsetting", text == expected, detail="%s: %r" % (" ".join(words), text))
    return fn


SHAPES = ["a", "a,b", "a:b", "a:s:b", "a,b:c", "a:s:b,c", "a:s:b,c:d"]


def h_vectors(maxsteps):
    def fn(S):
        util = load.modules["verif.util"]
        sh = SHAPES[S.choose("shape", len(SHAPES))]
        toks = {}

        def T(n):
            if n not in toks:
                toks[n] = S.token_decimal(n, -20, 20)
            return toks[n]
        parts, expect = [], []
        items = sh.split(",")
        for it_i, item in enumerate(items):
            if it_i:
                parts.append(",")
            names = item.split(":")
            for j, n in enumerate(names):
                if j:
                    parts.append(":")
                parts.append(T(n)[0])
            if len(names) == 1:
                expect.append(("single", T(names[0])[1]))
            elif len(names) == 2:
                expect.append(("range", T(names[0])[1], 1.0, T(names[1])[1]))
            else:
                expect.append(("range", T(names[0])[1], T(names[1])[1], T(names[2])[1]))
        for e in expect:
            if e[0] == "range":
                a, s, b = e[1], e[2], e[3]
                S.assume(s != 0)
                S.assume(S.abs(b - a) <= maxsteps * S.abs(s))
        arg = S.arg(parts)
        got = util.parse_numbers(arg)
        S.observe("values", got)
        want = []
        for e in expect:
            if e[0] == "single":
                want.append(e[1])
                continue
            a, s, b = e[1], e[2], e[3]
            if not S.symbolic:
                # the replay's oracle counts the grid points in exact decimal arithmetic (the tokens have three
                # decimals): a float a + i*s may miss the end point by one ulp, which is not what is decided here
                import fractions
                a, s, b = [fractions.Fraction(int(round(float(x) * 1000)), 1000) for x in (a, s, b)]
            up = bool(s > 0)
            i = 0
            while True:
                v = a + i * s
                if not bool((v <= b) if up else (v >= b)):
                    break
                want.append(v if S.symbolic else float(v))
                i += 1
                if i > maxsteps + 2:
                    break
        S.prove("vector=%s" % sh, len(got) == len(want) and bool(S.all(S.same(g, w) for g, w in zip(got, want))),
                twin=len(got) == len(want) and len(got) > 0 and bool(S.same(got[0], want[0] + 1)))
        for e in expect:
            if e[0] == "range":
                a, s, b = e[1], e[2], e[3]
                # the end point is included whenever it is on the grid
                k = S.div(b - a, s)
                on_grid = S.and_(k >= 0, S.any(k == j for j in range(maxsteps + 1)))
                S.prove("end-point-included-when-on-the-grid", S.implies(on_grid, S.any(S.same(g, b) for g in got)))
    return fn


def h_dates(maxdays):
    starts = [real_datetime.date(2024, 2, 27), real_datetime.date(2023, 12, 29), real_datetime.date(2023, 2, 26)]

    def fn(S):
        util = load.modules["verif.util"]
        w = S.choose("window", len(starts))
        base = starts[w]
        days = [base + real_datetime.timedelta(days=i) for i in range(maxdays)]
        codes = [d.year * 10000 + d.month * 100 + d.day for d in days]
        i0 = S.choose("first", maxdays)
        i1 = i0 + S.choose("span", maxdays - i0)
        step = 1 + S.choose("step", 2)
        # the dates are symbolic integers pinned by assumption to the chosen calendar days
        t0, v0, _ = S.token("d0", integer=True)
        t1, v1, _ = S.token("d1", integer=True)
        S.assume(v0 == codes[i0])
        S.assume(v1 == codes[i1])
        arg = S.arg([t0, ":", t1]) if step == 1 else S.arg([t0, ":", str(step), ":", t1])
        got = util.parse_dates(arg)
        S.observe("dates", got)
        want = [codes[i] for i in range(i0, i1 + 1, step)]
        S.prove("date-range-steps-by-calendar-days", len(got) == len(want) and bool(S.all(g == w_ for g, w_ in zip(got, want))),
                detail="%s+%d step %d" % (codes[i0], i1 - i0, step))
    return fn


CLASSES = ["d", "-", ".", ":", ",", "x"]


def grammar_accepts(cls):
    """vector := item (',' item)* ; item := num | num ':' num | num ':' num ':' num ;
    num := '-'? (digits ('.' digits?)? | '.' digits) -- evaluated on the class string."""
    import re
    if "x" in cls:
        return False
    num = r"-?(d+(\.d*)?|\.d+)"
    item = r"%s(:%s){0,2}" % (num, num)
    return re.fullmatch(r"%s(,%s)*" % (item, item), cls) is not None


def h_wellformed(L):
    """Whole arguments as character vectors of length <= L: the class of every
    character is chosen (6 classes), the digits are symbolic.  A string the
    documented grammar rejects must end in an error exit (message + non-zero
    status), not in values and not in another exception; an accepted string
    must give the values the grammar denotes."""
    def fn(S):
        from symx import values as V
        util = load.modules["verif.util"]
        n = 1 + S.choose("length", L)
        cls = "".join(CLASSES[S.choose("class%d" % i, len(CLASSES))] for i in range(n))
        digits = []
        parts, run, run_digits = [], "", []

        def flush():
            nonlocal run, run_digits
            if run:
                if S.symbolic:
                    parts.append(V.CharPiece(run, run_digits))
                else:
                    it = iter(run_digits)
                    parts.append("".join(str(int(next(it))) if ch == "d" else ch for ch in run))
                run, run_digits = "", []
        for i, ch in enumerate(cls):
            if ch in "d-.":
                if ch == "d":
                    dv = S.integer("digit%d" % i, lo=0, hi=9)
                    run_digits.append(dv)
                    digits.append(dv)
                run += ch
            else:
                flush()
                parts.append("x" if ch == "x" else ch)
        flush()
        arg = S.arg(parts)
        outcome, values, exc = None, None, None
        try:
            values = util.parse_numbers(arg)
            outcome = "values"
        except SystemExit as e:
            outcome = "exit" if (e.code is not None and e.code != 0) else "exit0"
        except Exception as e:
            outcome = "exception"
            exc = type(e).__name__
        ok = grammar_accepts(cls)
        S.observe("outcome", outcome)
        if not ok:
            S.prove("malformed-vector-is-rejected-with-an-error-exit", outcome == "exit", detail="class string %s -> %s %s" % (cls, outcome, exc or ""))
            return
        # accepted: no step 0 and bounded ranges are assumed before judging the values
        S.prove("well-formed-vector-is-parsed", outcome in ("values", "exit"), detail="class string %s -> %s %s" % (cls, outcome, exc or ""))
        if ":" not in cls:
            # a plain list: exactly the numerals, in order
            S.prove("list-is-parsed-to-values", outcome == "values", detail=cls)
            if outcome != "values":
                return
            it = iter(digits)
            want = []
            for piece in cls.split(","):
                neg = piece.startswith("-")
                body = piece[1:] if neg else piece
                ip, _, fp = body.partition(".")
                v = 0
                for k in range(len(ip)):
                    v = v + next(it) * 10 ** (len(ip) - 1 - k)
                for k in range(len(fp)):
                    v = v + S.div(next(it), 10 ** (k + 1))
                want.append(-v if neg else v)
            S.prove("list-length", len(values) == len(want), detail=cls)
            if len(values) == len(want):
                S.prove("list-values", S.all(S.close(a, b) for a, b in zip(values, want)),
                        twin=S.close(values[0], want[0] + 1), detail=cls)
    return fn


BAD = [
    ("unknown-flag", BASE + ["-nosuchflag", "3"]),
    ("flag-without-value", BASE + ["-latrange"]),
    ("flag-without-value-2", BASE + ["-o"]),
    ("empty-item", BASE + ["-o", "1,,2"]),
    ("trailing-colon", BASE + ["-o", "1:"]),
    ("four-parts", BASE + ["-o", "1:2:3:4"]),
    ("letters", BASE + ["-o", "1,a"]),
    ("zero-step", BASE + ["-o", "1:0:5"]),
    ("unknown-axis", BASE + ["-x", "nosuchaxis"]),
    ("unknown-aggregator", BASE + ["-agg", "nosuchagg"]),
    ("unknown-Tagg", BASE + ["-Tagg", "nosuchagg"]),
    ("unknown-Tx", BASE + ["-T", "3", "-Tx", "location"]),
    ("invalid-file", ["verif", "missing.txt", "-m", "mae", "-type", "text"]),
    ("invalid-clim-file", BASE + ["-c", "missing.txt"]),
    ("unknown-type", ["verif", "A.txt", "-m", "mae", "-type", "nosuchtype"]),
    ("config-without-name", BASE + ["--config"]),
]


def h_validation():
    def fn(S):
        n_sym = 5
        which = S.choose("case", len(BAD) + n_sym)
        if which < len(BAD):
            name, argv = BAD[which]
            with driver_stubs(S) as rec:
                code = run_driver(argv)
            if name == "unknown-Tx":
                # -Tx with an axis other than time/leadtime is rejected when data are pre-aggregated:
                # with the Data recorder the constructor cannot object, so only parsing is checked here
                S.prove("accepted-by-the-parser", code is None)
                return
            S.prove("rejected=%s" % name, code is not None and code != 0 and rec.action is None, detail=name)
            return
        k = which - len(BAD)
        if k == 0:       # a range option with a number of values other than two
            flag = ["-latrange", "-lonrange", "-elevrange", "-obsrange"][S.choose("flag", 4)]
            n = [1, 3][S.choose("n", 2)]
            toks = [S.token_decimal("v%d" % i, -20, 20)[0] for i in range(n)]
            parts = []
            for i, t_ in enumerate(toks):
                parts += ([","] if i else []) + [t_]
            with driver_stubs(S) as rec:
                code = run_driver(BASE + [flag, S.arg(parts)])
            S.prove("range-without-exactly-two-values-rejected", code is not None and code != 0 and rec.action is None, detail=flag)
        elif k == 1:     # non-positive -T
            tok, v, _ = S.token("T", integer=True)
            S.assume(S.and_(v >= -5, v <= 5))
            with driver_stubs(S) as rec:
                code = run_driver(BASE + ["-T", tok])
            S.prove("nonpositive-T-rejected", S.iff(v <= 0, code is not None and code != 0))
            S.prove("positive-T-reaches-data", S.implies(v > 0, code is None and rec.data_kwargs is not None and
                                                         bool(S.same(rec.data_kwargs["dim_agg_length"], v))) if code is None else True)
        elif k == 2:     # quantiles outside [0, 1]
            tok, v = S.token_decimal("q", -1, 2)
            with driver_stubs(S) as rec:
                code = run_driver(["verif", "A.txt", "-m", "quantilescore", "-type", "text", "-q", S.arg([tok])])
            S.prove("quantile-outside-unit-interval-rejected", S.iff(S.or_(v < 0, v > 1), code is not None and code != 0))
        elif k == 3:     # no thresholds available for a threshold metric is an error, not a crash
            with driver_stubs(S) as rec:
                code = run_driver(["verif", "A.txt", "-m", "ets", "-type", "text", "-r", "1,2"])
            S.prove("threshold-metric-with-r-accepted", code is None and rec.action == "text")
        else:            # metric help without files / no arguments: informational, exit status 0
            with driver_stubs(S) as rec:
                code = run_driver(["verif"])
            S.prove("no-arguments-prints-help", code is None and rec.action is None)
    return fn


def harnesses(tier):
    thorough = tier == "thorough"
    return [
        Harness("dispatch", h_dispatch(), "one option at a time at 3 positions vs the baseline command line"),
        Harness("config", h_config(), "--config file vs inline arguments"),
        Harness("overrides", h_overrides(), "two options writing the same setting: the later one takes effect completely"),
        Harness("vectors", h_vectors(10 if thorough else 6), "parse_numbers on symbolic decimal tokens"),
        Harness("dates", h_dates(10 if thorough else 6), "parse_dates across month / year / leap boundaries"),
        Harness("validation", h_validation(), "malformed and out-of-range arguments are rejected"),
        Harness("listing", h_listing(), "--list-thresholds/-quantiles/-locations/-times/-dates on two overlapping inputs"),
        Harness("wellformed", h_wellformed(5 if thorough else 4), "whole arguments as character vectors vs the documented grammar"),
    ]
