"""C10 -- NetCDF input is read faithfully and agrees with the text format (partial).

Kernel: verif.input.Netcdf.__init__ and every property getter, _get_locations,
_get_variable, util.clean; verif.input.get_input dispatch; scripts/text2nc.main.
Boundary: netCDF4.Dataset is an in-memory stub (dimensions, variables holding
symbolic masked arrays, global attributes; a write recorder for text2nc).
Because C09 pins the text reader and this check pins the NetCDF reader to the
same numbers, agreement of the two formats follows without running them side
by side.  NOT decided: what the NetCDF/HDF5 C library does (fill values on
disk, float32 storage, unlimited dimensions), and 'detected from content'
(is_valid_nc just tries to open the file with the C library)."""
import sys

import numpy as np

from symx.explore import Harness
from symx import load
from harness import common

BOUNDS = {
    "quick": {"reader": "2 times x 1 lead time x 2 locations, 2 thresholds/quantiles/members; every subset of the 8 optional variable groups; cells real / NaN / masked",
              "text2nc": "1 x 1 x 2 dataset with thresholds, quantiles, 2 members, pit and one other field"},
    "thorough": {"reader": "2 x 2 x 2", "text2nc": "2 x 2 x 2"},
}
ASSUMPTIONS = ["netCDF4 returns masked arrays for fill/masked cells (modelled as values + mask)",
               "float32 rounding on disk is outside the claim ('exactly, for float32-representable data' is not decided)"]
STUBS = ["netCDF4.Dataset -> in-memory dataset (read) / write recorder", "verif.input.get_input -> in-memory input (text2nc harness)",
         "util.is_valid_nc, Netcdf.is_valid, Comps.is_valid, Text.is_valid -> chosen booleans (dispatch harness)"]



# global attributes of the file -> (name, units, x0, x1) of the dataset's variable
ATTRS = [
    ({"long_name": "Temperature", "units": "K", "x0": 0.0}, "Temperature", "$K$", 0.0, None),
    ({"standard_name": "air_temperature", "units": "%"}, "air_temperature", "%", None, None),
    ({}, "Unknown variable", "Unknown units", None, None),
    ({"long_name": "Precip", "units": "mm", "x0": 0.0, "x1": 100.0}, "Precip", "$mm$", 0.0, 100.0),
    ({"long_name": "Cloud cover", "units": "", "x1": 1.0}, "Cloud cover", "Unknown units", None, 1.0),
]

class RVar(object):
    def __init__(self, arr):
        self._arr = arr
        self.shape = arr.shape

    def __getitem__(self, key):
        return self._arr[key]


class Dim(object):
    def __init__(self, n):
        self.n = n

    def __len__(self):
        return self.n


class RDataset(object):
    """Read side of the netCDF4 stub."""
    def __init__(self, dims, variables, attrs):
        self.dimensions = {k: Dim(v) for k, v in dims.items()}
        self.variables = variables
        for k, v in attrs.items():
            setattr(self, k, v)

    def close(self):
        pass


def sym_var(S, name, shape, masked=True):
    """(stub variable, dict index -> (value, masked flag))"""
    vals = S.array(name, shape, nan=True)
    cells = {}
    if S.symbolic:
        from symx.arrays import sa, ma_make
        mask = np.empty(shape, dtype=object)
        for idx in np.ndindex(*shape):
            mask[idx] = S.boolean("%s.masked[%s]" % (name, ",".join(map(str, idx)))) if masked else False
            cells[idx] = (vals[idx], mask[idx])
        arr = ma_make(vals, sa(mask))
    else:
        mask = np.zeros(shape, dtype=bool)
        for idx in np.ndindex(*shape):
            mask[idx] = S.boolean("%s.masked[%s]" % (name, ",".join(map(str, idx)))) if masked else False
            cells[idx] = (vals[idx], bool(mask[idx]))
        arr = np.ma.masked_array(np.array(vals, dtype=float), mask=mask)
    return RVar(arr), cells


def conc_var(S, values):
    """A variable with concrete, unmasked content."""
    if S.symbolic:
        from symx.arrays import sa, ma_make
        a = sa(np.array(values, dtype=float))
        return RVar(ma_make(a, np.zeros(a.shape, dtype=bool)))
    return RVar(np.ma.masked_array(np.array(values, dtype=float)))


GROUPS = ["altitude", "location", "latlon", "threshold", "quantile", "ensemble", "pit", "extra"]


def h_reader(T, L, P):
    def fn(S):
        inp = load.modules["verif.input"]
        util = load.modules["verif.util"]
        bits = S.choose("optional", 2 ** len(GROUPS))
        has = {g: bool(bits & (1 << i)) for i, g in enumerate(GROUPS)}
        attrs_variant = S.choose("attrs", len(ATTRS))
        times = [0, 86400][:T]
        lts = [0.0, 6.0][:L]
        shape = (T, L, P)
        variables = {"time": conc_var(S, times), "leadtime": conc_var(S, lts)}
        cells = {}
        variables["obs"], cells["obs"] = sym_var(S, "obs", shape)
        variables["fcst"], cells["fcst"] = sym_var(S, "fcst", shape)
        dims = {"time": T, "leadtime": L, "location": P}
        ids = [30, 10][:P]
        if has["altitude"]:
            variables["altitude"], cells["altitude"] = sym_var(S, "altitude", (P,), masked=False)
        if has["location"]:
            variables["location"] = conc_var(S, ids)
        if has["latlon"]:
            variables["lat"], cells["lat"] = sym_var(S, "lat", (P,), masked=False)
            variables["lon"], cells["lon"] = sym_var(S, "lon", (P,), masked=False)
        if has["threshold"]:
            variables["threshold"] = conc_var(S, [1.0, 5.0])
            variables["cdf"], cells["cdf"] = sym_var(S, "cdf", shape + (2,), masked=False)
            dims["threshold"] = 2
        if has["quantile"]:
            variables["quantile"] = conc_var(S, [0.1, 0.9])
            variables["x"], cells["x"] = sym_var(S, "x", shape + (2,), masked=False)
            dims["quantile"] = 2
        if has["ensemble"]:
            variables["ensemble"], cells["ensemble"] = sym_var(S, "ensemble", shape + (2,), masked=False)
        if has["pit"]:
            variables["pit"], cells["pit"] = sym_var(S, "pit", shape, masked=False)
        if has["extra"]:
            variables["extra"], cells["extra"] = sym_var(S, "extra", shape, masked=False)
        attrs = ATTRS[attrs_variant][0]
        ds = RDataset(dims, variables, attrs)

        class NC(object):
            @staticmethod
            def Dataset(name, mode="r"):
                return ds
        old_i, old_u = inp.netCDF4, util.netCDF4
        inp.netCDF4, util.netCDF4 = NC, NC
        try:
            S.prove("recognised-as-verif-netcdf", inp.Netcdf.is_valid("x.nc") is True)
            n = inp.Netcdf("some/dir/x.nc")

            def cleaned(c):
                v, m = c
                return S.ite(S.or_(m, S.isnan(v), v == -999, v > 1e30), float("nan"), v)

            def check(attr, got, key):
                S.observe(attr, got)
                S.prove("%s-shape" % attr, got is not None and tuple(got.shape) == tuple(variables[key].shape))
                for idx, c in cells[key].items():
                    S.prove("%s=clean(variable %s)" % (attr, key), S.same(got[idx], cleaned(c)), twin=S.same(got[idx], cleaned(c) + 1))
            check("obs", n.obs, "obs")
            check("fcst", n.fcst, "fcst")
            S.prove("times-and-leadtimes", [float(x) for x in n.times] == [float(x) for x in times] and
                    [float(x) for x in n.leadtimes] == lts)
            for g, attr, key in (("pit", "pit", "pit"), ("ensemble", "ensemble", "ensemble"),
                                 ("threshold", "threshold_scores", "cdf"), ("quantile", "quantile_scores", "x")):
                got = getattr(n, attr)
                if has[g]:
                    check(attr, got, key)
                else:
                    S.prove("absent-%s-is-None" % attr, got is None)
            S.prove("thresholds", [float(x) for x in n.thresholds] == ([1.0, 5.0] if has["threshold"] else []))
            S.prove("quantiles", [float(x) for x in n.quantiles] == ([0.1, 0.9] if has["quantile"] else []))
            S.prove("other-fields-listed", ("extra" in list(n.other_fields)) == has["extra"])
            if has["extra"]:
                check("other_score(extra)", n.other_score("extra"), "extra")
            S.prove("one-location-per-entry", len(n.locations) == P)
            for i, loc in enumerate(n.locations):
                S.prove("location-id", float(loc.id) == float(ids[i] if has["location"] else i), detail=str(has["location"]))
                for key, attr in (("lat", "lat"), ("lon", "lon")):
                    want = cleaned(cells[key][(i,)]) if has["latlon"] else 0.0
                    S.prove("location-%s" % attr, S.same(getattr(loc, attr), want))
                want = cleaned(cells["altitude"][(i,)]) if has["altitude"] else float("nan")
                S.prove("location-elevation", S.same(loc.elev, want))
            v = n.variable
            _, want_name, want_units, want_x0, want_x1 = ATTRS[attrs_variant]
            S.prove("variable-metadata", v.name == want_name and v.units == want_units and v.x0 == want_x0 and v.x1 == want_x1,
                    detail="attributes %s" % sorted(ATTRS[attrs_variant][0]))
        finally:
            inp.netCDF4, util.netCDF4 = old_i, old_u
    return fn


def h_dispatch():
    def fn(S):
        inp = load.modules["verif.input"]
        util = load.modules["verif.util"]
        is_nc = bool(S.choose("is_valid_nc", 2))
        v_nc = bool(S.choose("Netcdf.is_valid", 2))
        v_comps = bool(S.choose("Comps.is_valid", 2))
        v_text = bool(S.choose("Text.is_valid", 2))
        made = []
        saved = [(util, "is_valid_nc", util.is_valid_nc)]
        classes = {}
        for cname, valid in (("Netcdf", v_nc), ("Comps", v_comps), ("Text", v_text)):
            cls = getattr(inp, cname)
            saved.append((inp, cname, cls))

            def mk(cname, valid):
                class Fake(object):
                    def __init__(self, filename):
                        made.append((cname, filename))

                    @staticmethod
                    def is_valid(filename):
                        return valid
                return Fake
            classes[cname] = mk(cname, valid)
            setattr(inp, cname, classes[cname])
        util.is_valid_nc = lambda f: is_nc
        try:
            res, code = common.catch_exit(inp.get_input, "data.anything")
        finally:
            for obj, name, val in saved:
                setattr(obj, name, val)
        if is_nc:
            want = "Netcdf" if v_nc else ("Comps" if v_comps else None)
        else:
            want = "Text" if v_text else None
        if want is None:
            S.prove("unrecognised-file-is-rejected", code is not None and code != 0 and not made)
        else:
            S.prove("reader-chosen-from-content-not-name", code is None and made == [(want, "data.anything")], detail=want)
    return fn


class WVar(object):
    def __init__(self, name, dtype, dims):
        self.name, self.dtype, self.dims = name, dtype, tuple(dims)
        self.value = None

    def __setitem__(self, key, value):
        self.value = value


class WDataset(object):
    def __init__(self):
        self.__dict__["variables"] = {}
        self.__dict__["dims"] = {}
        self.__dict__["attrs"] = {}
        self.__dict__["closed"] = False

    def createDimension(self, name, size):
        self.dims[name] = size

    def createVariable(self, name, dtype, dims):
        v = WVar(name, dtype, dims)
        self.variables[name] = v
        return v

    def __getitem__(self, name):
        return self.variables[name]

    def __setattr__(self, k, v):
        self.attrs[k] = v

    def close(self):
        self.__dict__["closed"] = True


def h_text2nc(T, L, P):
    def fn(S):
        script = load.load_script("text2nc")
        inp = load.modules["verif.input"]
        var = load.modules["verif.variable"]
        MI = common.input_class()
        shape = (T, L, P)
        arrs = {k: S.array(k, shape) for k in ("obs", "fcst", "pit", "extra")}
        ens = S.array("ens", shape + (2,))
        cdf = S.array("cdf", shape + (2,), lo=0, hi=1)
        xq = S.array("x", shape + (2,))
        lats = [S.real("lat%d" % i, lo=-90, hi=90) for i in range(P)]
        lons = [S.real("lon%d" % i, lo=-180, hi=180) for i in range(P)]
        elevs = [S.real("elev%d" % i, lo=0, hi=3000) for i in range(P)]
        ids = [7, 3][:P]
        times = [0, 86400][:T]
        lts = [0.0, 6.0][:L]
        src = MI("in.txt", common.int_array(S, times), S.vector(lts), common.locations(ids, lats, lons, elevs),
                 obs=arrs["obs"], fcst=arrs["fcst"], pit=arrs["pit"], ensemble=ens,
                 thresholds=S.const([5.0, -1.0]), threshold_scores=cdf, quantiles=S.const([0.9, 0.1]), quantile_scores=xq,   # reader's set order: not ascending
                 others={"extra": arrs["extra"], "pit": arrs["pit"]},
                 variable=var.Variable("Precip", "$mm$", x0=0.0, x1=None))
        out = WDataset()

        class NC(object):
            @staticmethod
            def Dataset(name, mode="r"):
                return out
        old_nc, old_get, old_argv = script.netCDF4, inp.get_input, sys.argv
        script.netCDF4 = NC
        inp.get_input = lambda f: src
        sys.argv = ["text2verif", "in.txt", "out.nc"]
        try:
            script.main()
        finally:
            script.netCDF4, inp.get_input, sys.argv = old_nc, old_get, old_argv
        S.prove("file-closed", out.closed)
        V_ = out.variables

        def same_var(name, want, label=None):
            ok = name in V_ and V_[name].value is not None
            S.prove("variable-written=%s" % name, ok)
            if ok:
                S.prove(label or ("values-preserved=%s" % name), S.same_arrays(S.vector(list(S.elements(V_[name].value))) if not hasattr(V_[name].value, "shape") else V_[name].value,
                                                                                 want if hasattr(want, "shape") else S.vector(list(want))))
        same_var("obs", arrs["obs"])
        same_var("fcst", arrs["fcst"])
        same_var("time", S.vector([float(t) for t in times]))
        same_var("leadtime", S.vector(lts))
        same_var("location", S.vector([float(i) for i in ids]))
        same_var("lat", S.vector(lats))
        same_var("lon", S.vector(lons))
        same_var("altitude", S.vector(elevs))
        same_var("threshold", S.const([5.0, -1.0]))
        same_var("cdf", cdf)
        same_var("quantile", S.const([0.9, 0.1]))
        same_var("x", xq)
        same_var("extra", arrs["extra"])
        same_var("pit", arrs["pit"])
        same_var("ensemble", ens)
        S.prove("dimensions", out.dims.get("leadtime") == L and out.dims.get("location") == P and "time" in out.dims)
        S.prove("variable-metadata-written", out.attrs.get("standard_name") == "Precip" and out.attrs.get("units") == "mm")
    return fn


def harnesses(tier):
    thorough = tier == "thorough"
    T, L, P = (2, 2, 2) if thorough else (2, 1, 2)
    return [
        Harness("netcdf_reader", h_reader(T, L, P), "Netcdf input object vs the variables of the (stub) file"),
        Harness("get_input", h_dispatch(), "reader dispatch"),
        Harness("text2nc", h_text2nc(*((2, 2, 2) if thorough else (1, 1, 2))), "text2nc writes every array of the text input"),
    ]
