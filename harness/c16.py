"""C16 -- diagrams draw the quantities their definitions prescribe (partial).

Kernel: Output.plot and _plot_core of the standard line plot, obsfcst, qq,
sort, hist and freq diagrams, on a real Data object with symbolic cells.
Boundary: matplotlib.pyplot is a recording stub -- the claim concerns the x / y
arrays handed to plot()/bar(), one series per input in command-line order, and
that every valid case falls in exactly one bin of a binned diagram.
NOT decided: the other 22 diagrams, maps, rank and impact views, and whether
matplotlib draws what it is given."""
import numpy as np

from symx.explore import Harness
from symx import load
from symx import mplstub
from harness import common, ref
from harness.c07 import event

BOUNDS = {
    "quick": {"dataset": "2 inputs, 2 times x 1 lead time x 2 locations, real cells; three cells of the first input may be NaN", "diagrams": "standard (mae along location/time/no), obsfcst on the full shape; qq, sort on 3 x 1 x 1; hist, freq on 2 x 1 x 1",
              "bins": "3 symbolic increasing thresholds (within=)"},
    "thorough": {"dataset": "2 inputs, 2 x 2 x 2", "diagrams": "same", "bins": "same"},
}
ASSUMPTIONS = ["draw calls are observed at the pyplot boundary (recording stub)", "thresholds are strictly increasing"]
STUBS = ["matplotlib.pyplot in verif.output / verif.util -> recording stub"]

DIAGRAMS = ["standard/location", "standard/time", "standard/no", "obsfcst", "obsfcst+quantiles", "qq", "sort", "hist", "freq"]


def h_diagrams(T, L, P):
    def fn(S):
        data = load.modules["verif.data"]
        metric = load.modules["verif.metric"]
        out = load.modules["verif.output"]
        util = load.modules["verif.util"]
        ax = load.modules["verif.axis"]
        f = load.modules["verif.field"]
        MI = common.input_class()
        which = DIAGRAMS[S.choose("diagram", len(DIAGRAMS))]
        T_, L_, P_ = T, L, P
        if which in ("qq", "sort", "hist", "freq"):
            # ordering / binning forks grow factorially with the number of values: one location, one lead time
            T_, L_, P_ = 3 if which in ("qq", "sort") else 2, 1, 1
        return run(S, which, T_, L_, P_)
    return fn


def run(S, which, T, L, P):
    if True:
        data = load.modules["verif.data"]
        metric = load.modules["verif.metric"]
        out = load.modules["verif.output"]
        util = load.modules["verif.util"]
        ax = load.modules["verif.axis"]
        f = load.modules["verif.field"]
        MI = common.input_class()
        shape = (T, L, P)
        raw, ins, rawq = [], [], []
        for nm in ("A", "B"):
            # missing values only in three cells of input A (the cross-input rules are C01's subject)
            obs, fcst = S.array(nm + ".obs", shape, nan=False), S.array(nm + ".fcst", shape, nan=False)
            if nm == "A":
                first, second = list(np.ndindex(*shape))[:2]
                obs[first] = S.real("A.obs?", nan=True)
                fcst[first] = S.real("A.fcst?0", nan=True)
                fcst[second] = S.real("A.fcst?1", nan=True)
            raw.append((obs, fcst))
            kw = {}
            if which == "obsfcst+quantiles":
                xq = S.array(nm + ".x", shape + (2,), nan=False)
                kw = {"quantiles": S.const([0.1, 0.9]), "quantile_scores": xq}
                rawq.append(xq)
            ins.append(MI(nm + ".txt", common.int_array(S, [86400 * i for i in range(T)]), S.vector([0.0, 30.0][:L]),
                          common.locations(list(range(1, P + 1))), obs=obs.copy(), fcst=fcst.copy(), **kw))
        D = data.Data(ins)
        cells = list(np.ndindex(*shape))

        def valid(c, need_obs=True, need_fcst=True):
            conds = []
            for o, fc in raw:
                if need_obs:
                    conds.append(S.not_(S.isnan(o[c])))
                if need_fcst:
                    conds.append(S.not_(S.isnan(fc[c])))
            return S.all(conds)
        common_cells = [c for c in cells if bool(valid(c))]
        t = [S.real("r%d" % i, lo=-10, hi=10) for i in range(3)]
        if which in ("hist", "freq"):
            S.assume(S.and_(t[0] < t[1], t[1] < t[2]))
        if which.startswith("standard"):
            pl = out.Standard(metric.Mae())
            pl.axis = {"location": ax.Location(), "time": ax.Time(), "no": ax.No()}[which.split("/")[1]]
        elif which in ("obsfcst", "obsfcst+quantiles"):
            pl = out.ObsFcst()
            pl.axis = ax.Location()
            if which == "obsfcst+quantiles":
                pl.quantiles = [0.1, 0.9]
        elif which == "qq":
            pl = out.QQ()
        elif which == "sort":
            pl = out.Sort(f.Fcst())
        elif which == "hist":
            pl = out.Hist(f.Fcst())
            pl.thresholds = S.vector(t)
        else:
            pl = out.Freq()
            pl.thresholds = S.vector(t)
        stub = mplstub.Pyplot()
        saved = (out.mpl, util.mpl)
        out.mpl = stub
        util.mpl = stub
        try:
            pl.plot(D)
        finally:
            out.mpl, util.mpl = saved
        calls = stub.calls
        series = [c for c in calls.find("mpl", "plot") if c[3].get("label") in ("A.txt", "B.txt")]

        def slice_cells(kind, k):
            return [c for c in common_cells if kind == "no" or (kind == "location" and c[2] == k) or (kind == "time" and c[0] == k)]

        def mae(f_, sel):
            o, fc = raw[f_]
            return ref.r_mean(S, [S.abs(o[c] - fc[c]) for c in sel]) if sel else float("nan")
        if which.startswith("standard"):
            kind = which.split("/")[1]
            if kind == "no":
                bars = calls.find("mpl", "bar")
                S.prove("one-bar-per-input", len(bars) == 1 and len(S.elements(bars[0][2][1])) == 2, detail=which)
                if len(bars) == 1:
                    ys = S.elements(bars[0][2][1])
                    for f_ in range(2):
                        S.prove("bar-height-is-the-score", S.same(ys[f_], mae(f_, slice_cells("no", None))), twin=S.same(ys[f_], mae(f_, slice_cells("no", None)) + 1), detail=which)
                return
            n = P if kind == "location" else T
            S.prove("one-series-per-input-in-order", [c[3]["label"] for c in series] == ["A.txt", "B.txt"], detail=which)
            for f_, c in enumerate(series[:2]):
                ys = S.elements(c[2][1])
                S.prove("points-per-series", len(ys) == n, detail=which)
                for k in range(min(n, len(ys))):
                    w = mae(f_, slice_cells(kind, k))
                    S.prove("point-is-the-score-of-its-slice", S.same(ys[k], w), twin=S.same(ys[k], w + 1), detail=which)
            return
        if which == "obsfcst+quantiles":
            # one dashed line per (input, quantile level), labelled "<input> <level>%": the mean of
            # that input's stored quantile over the cases of each location (common valid cases)
            for f_, nm in enumerate(("A.txt", "B.txt")):
                for qi, lev in enumerate((10, 90)):
                    lines_ = [c for c in calls.find("mpl", "plot") if c[3].get("label") == "%s %d%%" % (nm, lev)]
                    S.prove("one-line-per-input-and-quantile", len(lines_) == 1, detail="%s %d%%" % (nm, lev))
                    if len(lines_) != 1:
                        continue
                    ys = S.elements(lines_[0][2][1])
                    for p in range(P):
                        # the quantile lines need the quantile and the observations (not the forecasts)
                        sel = [c for c in cells if c[2] == p and bool(valid(c, need_fcst=False))]
                        w = ref.r_mean(S, [rawq[f_][c + (qi,)] for c in sel]) if sel else float("nan")
                        S.prove("quantile-line-shows-its-own-input-and-level", S.same(ys[p], w), twin=S.same(ys[p], w + 1),
                                detail="%s %d%%" % (nm, lev))
            which = "obsfcst"
        if which == "obsfcst":
            obs_line = [c for c in calls.find("mpl", "plot") if c[3].get("label") == "Observed"]
            S.prove("observation-line-and-one-line-per-input", len(obs_line) == 1 and [c[3]["label"] for c in series] == ["A.txt", "B.txt"])
            for p in range(P):
                sel = slice_cells("location", p)
                if len(obs_line) == 1:
                    w = ref.r_mean(S, [raw[0][0][c] for c in sel]) if sel else float("nan")
                    S.prove("observed-mean-per-location", S.same(S.elements(obs_line[0][2][1])[p], w))
                for f_, c in enumerate(series[:2]):
                    w = ref.r_mean(S, [raw[f_][1][c] for c in sel]) if sel else float("nan")
                    S.prove("forecast-mean-per-location", S.same(S.elements(c[2][1])[p], w), twin=S.same(S.elements(c[2][1])[p], w + 1))
            return
        if which in ("qq", "sort"):
            S.prove("one-series-per-input-in-order", [c[3]["label"] for c in series] == ["A.txt", "B.txt"], detail=which)
            for f_, c in enumerate(series[:2]):
                xs, ys = S.elements(c[2][0]), S.elements(c[2][1])
                if which == "qq":
                    sel = common_cells
                    so = ref.r_sorted(S, [raw[f_][0][c_] for c_ in sel]) if sel else [float("nan")]
                    sf = ref.r_sorted(S, [raw[f_][1][c_] for c_ in sel]) if sel else [float("nan")]
                    S.prove("qq-points=sorted-obs-vs-sorted-fcst", len(xs) == len(so) and len(ys) == len(sf) and
                            bool(S.all(S.same(a, b) for a, b in zip(xs, so))) and bool(S.all(S.same(a, b) for a, b in zip(ys, sf))))
                else:
                    sel = [c_ for c_ in cells if bool(valid(c_, need_obs=False))]
                    sf = ref.r_sorted(S, [raw[f_][1][c_] for c_ in sel]) if sel else [float("nan")]
                    S.prove("sorted-values", len(xs) == len(sf) and bool(S.all(S.same(a, b) for a, b in zip(xs, sf))))
                    n = len(sf)
                    S.prove("percentiles-0-to-100", len(ys) == n and (n == 1 or bool(S.all(S.same(ys[i], 100.0 * i / (n - 1)) for i in range(n)))))
            return
        # binned diagrams: hist (counts in %) and freq (fraction of cases per bin)
        S.prove("one-series-per-input-in-order", [c[3]["label"] for c in series] == ["A.txt", "B.txt"], detail=which)
        bins = [(t[0], t[1]), (t[1], t[2])]
        for f_, c in enumerate(series[:2]):
            ys = S.elements(c[2][1])
            S.prove("one-point-per-bin", len(ys) == 2, detail=which)
            if len(ys) != 2:
                continue
            sel = [c_ for c_ in cells if bool(valid(c_, need_obs=False))] if which == "hist" else common_cells
            vals = [raw[f_][1][c_] for c_ in sel]
            counts = [S.count(event(S, v, "within=", lo, hi) for v in vals) for lo, hi in bins]
            total_in = counts[0] + counts[1]
            # every value of (t0, t2] is in exactly one bin
            S.prove("each-value-in-exactly-one-bin", S.same(total_in, S.count(S.and_(v > t[0], v <= t[2]) for v in vals)), detail=which)
            for b in range(2):
                if which == "hist":
                    w = S.div(counts[b] * 100.0, total_in)
                else:
                    w = S.div(counts[b], len(vals)) if vals else float("nan")
                S.prove("bin-height=%s" % which, S.same(ys[b], w), twin=S.same(ys[b], w + 1))


def h_bin_helper(N):
    """util.bin(x, y, edges): bin i holds the cases with edges[i] <= x < edges[i+1];
    every case inside [first edge, last edge) is in exactly one bin."""
    def fn(S):
        util = load.modules["verif.util"]
        x = S.array("x", N, nan=True)
        y = S.array("y", N, nan=False)
        e = [S.real("e%d" % i) for i in range(3)]
        S.assume(S.and_(e[0] < e[1], e[1] < e[2]))
        xx, yy = util.bin(x, y, S.vector(e), func=np.mean) if not S.symbolic else util.bin(x, y, S.vector(e), func=load.modules["verif.util"].np.mean)
        S.observe("xx", xx)
        S.observe("yy", yy)
        xs, ys = S.elements(x), S.elements(y)
        inside_total = 0
        for b in range(2):
            sel = [i for i in range(N) if bool(S.and_(S.not_(S.isnan(xs[i])), xs[i] >= e[b], xs[i] < e[b + 1]))]
            inside_total += len(sel)
            if not sel:
                S.prove("empty-bin-is-nan", S.and_(S.isnan(xx[b]), S.isnan(yy[b])))
                continue
            S.prove("bin-x=mean-of-its-cases", S.same(xx[b], ref.r_mean(S, [xs[i] for i in sel])), twin=S.same(xx[b], ref.r_mean(S, [xs[i] for i in sel]) + 1))
            S.prove("bin-y=func-of-its-cases", S.same(yy[b], ref.r_mean(S, [ys[i] for i in sel])), twin=S.same(yy[b], ref.r_mean(S, [ys[i] for i in sel]) + 1))
        covered = S.count(S.and_(S.not_(S.isnan(v)), v >= e[0], v < e[2]) for v in xs)
        S.prove("each-case-in-exactly-one-bin", S.same(covered, inside_total))
    return fn


def harnesses(tier):
    thorough = tier == "thorough"
    return [Harness("diagrams", h_diagrams(2, 2 if thorough else 1, 2), "draw-call arguments of 6 diagrams vs their definitions"),
            Harness("bin_helper", h_bin_helper(3 if thorough else 2), "util.bin: the binning helper of the binned diagrams")]
