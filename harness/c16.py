"""C16 -- diagrams draw the quantities their definitions prescribe (partial).

Kernel: Output.plot and _plot_core of the standard line plot, obsfcst, qq,
sort, hist, freq (harness `diagrams`) and qq with -x/-q, scatter, error, change,
cond, marginal, reliability, discrimination, roc, droc0, pithist, timeseries (`diagrams2.*`), invreliability, spreadskill,
against, bsdecomp, igncontrib, economicvalue, murphy, droc (`diagrams3.*`, harness/c16c.py), meteo, autocov and (thorough tier) autocorr
(`diagrams4.*`, harness/c16d.py), on a real Data object with symbolic cells.
Boundary: matplotlib.pyplot is a recording stub -- the claim concerns the x / y
arrays handed to plot()/bar(), one series per input in command-line order, and
that every valid case falls in exactly one bin of a binned diagram.
NOT decided: performance, taylor, fss, the smoothing lines of autocorr/autocov, maps, rank and impact views, and whether
matplotlib draws what it is given."""
import numpy as np

from symx.explore import Harness
from symx import load
from symx import mplstub
from harness import common, ref
from harness.c07 import event

BOUNDS = {
    "quick": {"dataset": "2 inputs, 2 times x 1 lead time x 2 locations, real cells; three cells of the first input may be NaN", "diagrams": "standard (mae along location/time/no), obsfcst on the full shape; qq, sort on 3 x 1 x 1; hist, freq on 2 x 1 x 1; "
                          "diagrams2: qq with -x/-q, scatter, error, marginal on 2 x 1 x 2, change on 3 x 1 x 1, cond on 2 x 1 x 1 (second input concrete, edges 0,1,2), timeseries on 2 x 2 x 2",
              "bins": "3 symbolic increasing thresholds (within=)",
              "diagrams3": "first input symbolic (2-3 cases; forecast probabilities inside a window holding 2-3 edges of the diagram's fixed grid), second input concrete",
              "diagrams4": "meteo: one input 2 x 2 x 1 with 3 quantile levels stored in non-ascending order, 5 cells may be NaN; autocov along time / lead time / location: 2 entries x 3 cases, first input symbolic (2 cells may be NaN), second concrete"},
    "thorough": {"dataset": "2 inputs, 2 x 2 x 2", "diagrams": "same", "bins": "same"},
}
ASSUMPTIONS = ["draw calls are observed at the pyplot boundary (recording stub)", "thresholds are strictly increasing"]
STUBS = ["matplotlib.pyplot in verif.output / verif.util -> recording stub"]

DIAGRAMS = ["standard/location", "standard/time", "standard/no", "obsfcst", "obsfcst+quantiles", "qq", "sort", "hist", "freq"]


def h_diagrams(T, L, P):
    def fn(S):
        data = load.modules["verif.data"]
        metric = load.modules["verif.metric"]
        out = load.modules["verif.output"]
        util = load.modules["verif.util"]
        ax = load.modules["verif.axis"]
        f = load.modules["verif.field"]
        MI = common.input_class()
        which = DIAGRAMS[S.choose("diagram", len(DIAGRAMS))]
        T_, L_, P_ = T, L, P
        if which in ("qq", "sort", "hist", "freq"):
            # ordering / binning forks grow factorially with the number of values: one location, one lead time
            T_, L_, P_ = 3 if which in ("qq", "sort") else 2, 1, 1
        return run(S, which, T_, L_, P_)
    return fn


def run(S, which, T, L, P):
    if True:
        data = load.modules["verif.data"]
        metric = load.modules["verif.metric"]
        out = load.modules["verif.output"]
        util = load.modules["verif.util"]
        ax = load.modules["verif.axis"]
        f = load.modules["verif.field"]
        MI = common.input_class()
        shape = (T, L, P)
        raw, ins, rawq = [], [], []
        for nm in ("A", "B"):
            # missing values only in three cells of input A (the cross-input rules are C01's subject)
            obs, fcst = S.array(nm + ".obs", shape, nan=False), S.array(nm + ".fcst", shape, nan=False)
            if nm == "A":
                first, second = list(np.ndindex(*shape))[:2]
                obs[first] = S.real("A.obs?", nan=True)
                fcst[first] = S.real("A.fcst?0", nan=True)
                fcst[second] = S.real("A.fcst?1", nan=True)
            raw.append((obs, fcst))
            kw = {}
            if which == "obsfcst+quantiles":
                xq = S.array(nm + ".x", shape + (2,), nan=False)
                kw = {"quantiles": S.const([0.1, 0.9]), "quantile_scores": xq}
                rawq.append(xq)
            ins.append(MI(nm + ".txt", common.int_array(S, [86400 * i for i in range(T)]), S.vector([0.0, 30.0][:L]),
                          common.locations(list(range(1, P + 1))), obs=obs.copy(), fcst=fcst.copy(), **kw))
        D = data.Data(ins)
        cells = list(np.ndindex(*shape))

        def valid(c, need_obs=True, need_fcst=True):
            conds = []
            for o, fc in raw:
                if need_obs:
                    conds.append(S.not_(S.isnan(o[c])))
                if need_fcst:
                    conds.append(S.not_(S.isnan(fc[c])))
            return S.all(conds)
        common_cells = [c for c in cells if bool(valid(c))]
        t = [S.real("r%d" % i, lo=-10, hi=10) for i in range(3)]
        if which in ("hist", "freq"):
            S.assume(S.and_(t[0] < t[1], t[1] < t[2]))
        if which.startswith("standard"):
            pl = out.Standard(metric.Mae())
            pl.axis = {"location": ax.Location(), "time": ax.Time(), "no": ax.No()}[which.split("/")[1]]
        elif which in ("obsfcst", "obsfcst+quantiles"):
            pl = out.ObsFcst()
            pl.axis = ax.Location()
            if which == "obsfcst+quantiles":
                pl.quantiles = [0.1, 0.9]
        elif which == "qq":
            pl = out.QQ()
        elif which == "sort":
            pl = out.Sort(f.Fcst())
        elif which == "hist":
            pl = out.Hist(f.Fcst())
            pl.thresholds = S.vector(t)
        else:
            pl = out.Freq()
            pl.thresholds = S.vector(t)
        stub = mplstub.Pyplot()
        saved = (out.mpl, util.mpl)
        out.mpl = stub
        util.mpl = stub
        try:
            pl.plot(D)
        finally:
            out.mpl, util.mpl = saved
        calls = stub.calls
        series = [c for c in calls.find("mpl", "plot") if c[3].get("label") in ("A.txt", "B.txt")]

        def slice_cells(kind, k):
            return [c for c in common_cells if kind == "no" or (kind == "location" and c[2] == k) or (kind == "time" and c[0] == k)]

        def mae(f_, sel):
            o, fc = raw[f_]
            return ref.r_mean(S, [S.abs(o[c] - fc[c]) for c in sel]) if sel else float("nan")
        if which.startswith("standard"):
            kind = which.split("/")[1]
            if kind == "no":
                bars = calls.find("mpl", "bar")
                S.prove("one-bar-per-input", len(bars) == 1 and len(S.elements(bars[0][2][1])) == 2, detail=which)
                if len(bars) == 1:
                    ys = S.elements(bars[0][2][1])
                    for f_ in range(2):
                        S.prove("bar-height-is-the-score", S.same(ys[f_], mae(f_, slice_cells("no", None))), twin=S.same(ys[f_], mae(f_, slice_cells("no", None)) + 1), detail=which)
                return
            n = P if kind == "location" else T
            S.prove("one-series-per-input-in-order", [c[3]["label"] for c in series] == ["A.txt", "B.txt"], detail=which)
            for f_, c in enumerate(series[:2]):
                ys = S.elements(c[2][1])
                S.prove("points-per-series", len(ys) == n, detail=which)
                for k in range(min(n, len(ys))):
                    w = mae(f_, slice_cells(kind, k))
                    S.prove("point-is-the-score-of-its-slice", S.same(ys[k], w), twin=S.same(ys[k], w + 1), detail=which)
            return
        if which == "obsfcst+quantiles":
            # one dashed line per (input, quantile level), labelled "<input> <level>%": the mean of
            # that input's stored quantile over the cases of each location (common valid cases)
            for f_, nm in enumerate(("A.txt", "B.txt")):
                for qi, lev in enumerate((10, 90)):
                    lines_ = [c for c in calls.find("mpl", "plot") if c[3].get("label") == "%s %d%%" % (nm, lev)]
                    S.prove("one-line-per-input-and-quantile", len(lines_) == 1, detail="%s %d%%" % (nm, lev))
                    if len(lines_) != 1:
                        continue
                    ys = S.elements(lines_[0][2][1])
                    for p in range(P):
                        # the quantile lines need the quantile and the observations (not the forecasts)
                        sel = [c for c in cells if c[2] == p and bool(valid(c, need_fcst=False))]
                        w = ref.r_mean(S, [rawq[f_][c + (qi,)] for c in sel]) if sel else float("nan")
                        S.prove("quantile-line-shows-its-own-input-and-level", S.same(ys[p], w), twin=S.same(ys[p], w + 1),
                                detail="%s %d%%" % (nm, lev))
            which = "obsfcst"
        if which == "obsfcst":
            obs_line = [c for c in calls.find("mpl", "plot") if c[3].get("label") == "Observed"]
            S.prove("observation-line-and-one-line-per-input", len(obs_line) == 1 and [c[3]["label"] for c in series] == ["A.txt", "B.txt"])
            for p in range(P):
                sel = slice_cells("location", p)
                if len(obs_line) == 1:
                    w = ref.r_mean(S, [raw[0][0][c] for c in sel]) if sel else float("nan")
                    S.prove("observed-mean-per-location", S.same(S.elements(obs_line[0][2][1])[p], w))
                for f_, c in enumerate(series[:2]):
                    w = ref.r_mean(S, [raw[f_][1][c] for c in sel]) if sel else float("nan")
                    S.prove("forecast-mean-per-location", S.same(S.elements(c[2][1])[p], w), twin=S.same(S.elements(c[2][1])[p], w + 1))
            return
        if which in ("qq", "sort"):
            S.prove("one-series-per-input-in-order", [c[3]["label"] for c in series] == ["A.txt", "B.txt"], detail=which)
            for f_, c in enumerate(series[:2]):
                xs, ys = S.elements(c[2][0]), S.elements(c[2][1])
                if which == "qq":
                    sel = common_cells
                    so = ref.r_sorted(S, [raw[f_][0][c_] for c_ in sel]) if sel else [float("nan")]
                    sf = ref.r_sorted(S, [raw[f_][1][c_] for c_ in sel]) if sel else [float("nan")]
                    S.prove("qq-points=sorted-obs-vs-sorted-fcst", len(xs) == len(so) and len(ys) == len(sf) and
                            bool(S.all(S.same(a, b) for a, b in zip(xs, so))) and bool(S.all(S.same(a, b) for a, b in zip(ys, sf))))
                else:
                    sel = [c_ for c_ in cells if bool(valid(c_, need_obs=False))]
                    sf = ref.r_sorted(S, [raw[f_][1][c_] for c_ in sel]) if sel else [float("nan")]
                    S.prove("sorted-values", len(xs) == len(sf) and bool(S.all(S.same(a, b) for a, b in zip(xs, sf))))
                    n = len(sf)
                    S.prove("percentiles-0-to-100", len(ys) == n and (n == 1 or bool(S.all(S.same(ys[i], 100.0 * i / (n - 1)) for i in range(n)))))
            return
        # binned diagrams: hist (counts in %) and freq (fraction of cases per bin)
        S.prove("one-series-per-input-in-order", [c[3]["label"] for c in series] == ["A.txt", "B.txt"], detail=which)
        bins = [(t[0], t[1]), (t[1], t[2])]
        for f_, c in enumerate(series[:2]):
            ys = S.elements(c[2][1])
            S.prove("one-point-per-bin", len(ys) == 2, detail=which)
            if len(ys) != 2:
                continue
            sel = [c_ for c_ in cells if bool(valid(c_, need_obs=False))] if which == "hist" else common_cells
            vals = [raw[f_][1][c_] for c_ in sel]
            counts = [S.count(event(S, v, "within=", lo, hi) for v in vals) for lo, hi in bins]
            total_in = counts[0] + counts[1]
            # every value of (t0, t2] is in exactly one bin
            S.prove("each-value-in-exactly-one-bin", S.same(total_in, S.count(S.and_(v > t[0], v <= t[2]) for v in vals)), detail=which)
            for b in range(2):
                if which == "hist":
                    w = S.div(counts[b] * 100.0, total_in)
                else:
                    w = S.div(counts[b], len(vals)) if vals else float("nan")
                S.prove("bin-height=%s" % which, S.same(ys[b], w), twin=S.same(ys[b], w + 1))


DIAGRAMS2_DEV = ["performance/time"]      # not registered: Performance._get_f_intervals forks on the order statistics of the forecasts even with -simple (16 000+ paths for two cases)
DIAGRAMS2 = ["droc0", "roc", "discrimination", "pithist", "reliability/below", "reliability/above", "qq+quantiles/location", "qq+quantiles/no", "scatter/no", "scatter/location", "error/location", "change", "cond", "marginal/above", "marginal/below", "timeseries"]


def h_diagrams2(which, big):
    """Seven more diagrams, same boundary (pyplot recording stub), each on the
    smallest dataset on which its statistic is not trivial."""
    def fn(S):
        return run2(S, which, big)
    return fn


def run2(S, which, big):
    data = load.modules["verif.data"]
    metric = load.modules["verif.metric"]
    out = load.modules["verif.output"]
    util = load.modules["verif.util"]
    ax = load.modules["verif.axis"]
    f = load.modules["verif.field"]
    MI = common.input_class()
    T, L, P = {"scatter/no": (2, 1, 2), "scatter/location": (2, 1, 2), "error/location": (2, 1, 2), "change": (3, 1, 1),
               "cond": (2, 1, 1), "qq+quantiles/location": (2, 1, 2), "qq+quantiles/no": (2, 1, 1),
               "droc0": (3, 1, 1), "performance/time": (2, 1, 1), "roc": (3, 1, 1), "discrimination": (3, 1, 1), "pithist": (3, 1, 1), "reliability/below": (3, 1, 1), "reliability/above": (3, 1, 1), "marginal/above": (2, 1, 2), "marginal/below": (2, 1, 2), "timeseries": (2, 2, 2)}[which]
    if big and which in ("scatter/no", "scatter/location"):
        L = 2
    if big and which == "cond":
        T = 3
    shape = (T, L, P)
    cells = list(np.ndindex(*shape))
    raw, ins, rawp = [], [], []
    THR = [1.0, 2.5]
    lts = [0.0, 24.0][:L]
    for nm in ("A", "B"):
        if which == "cond" and nm == "B":
            # the number of paths is 4^(number of symbolic values): the second input of this diagram is concrete
            # (one value exactly on an edge), the first is symbolic
            obs = S.const(np.array([0.5, 1.0, 1.75][:T], dtype=float).reshape(shape))
            fcst = S.const(np.array([1.5, 0.25, 2.0][:T], dtype=float).reshape(shape))
        else:
            obs, fcst = S.array(nm + ".obs", shape, nan=False), S.array(nm + ".fcst", shape, nan=False)
            if nm == "A":
                obs[cells[0]] = S.real("A.obs?", nan=True)
                fcst[cells[1]] = S.real("A.fcst?", nan=True)
            else:
                fcst[cells[-1]] = S.real("B.fcst?", nan=True)
        raw.append((obs, fcst))
        kw = {}
        if which.startswith("qq+quantiles"):
            xq = S.array(nm + ".q", shape + (2,), nan=False)
            if nm == "B":
                xq[cells[-1] + (0,)] = S.real("B.q?", nan=True)
            kw = {"quantiles": S.const([0.1, 0.9]), "quantile_scores": xq}
            rawp.append(xq)
        if which == "pithist":
            pit = S.array(nm + ".pit", shape, nan=False, lo=0, hi=1)
            if nm == "B":
                pit[cells[-1]] = S.real("B.pit?", nan=True, lo=0, hi=1)
            kw = {"pit": pit}
            rawp.append(pit)
        if which.startswith("reliability") or which in ("discrimination", "roc"):
            pr = S.array(nm + ".p", shape + (1,), nan=False, lo=0, hi=1)
            kw = {"thresholds": S.const([1.0]), "threshold_scores": pr}
            rawp.append(pr)
        if which.startswith("marginal"):
            pr = S.array(nm + ".p", shape + (2,), nan=False)
            if nm == "B":
                pr[cells[0] + (1,)] = S.real("B.p?", nan=True)
            kw = {"thresholds": S.const(THR), "threshold_scores": pr}
            rawp.append(pr)
        ins.append(MI(nm + ".txt", common.int_array(S, [86400 * i for i in range(T)]), S.vector(lts),
                      common.locations(list(range(1, P + 1))), obs=obs.copy(), fcst=fcst.copy(), **kw))
    D = data.Data(ins)

    def valid(c, need_obs=True, need_fcst=True, extra=None):
        conds = []
        for k, (o, fc) in enumerate(raw):
            if need_obs:
                conds.append(S.not_(S.isnan(o[c])))
            if need_fcst:
                conds.append(S.not_(S.isnan(fc[c])))
            if extra is not None:
                conds.append(S.not_(S.isnan(rawp[k][c + (extra,)])))
        return bool(S.all(conds))
    common_cells = [c for c in cells if valid(c)]
    if which == "cond":
        t = [0.0, 1.0, 2.0]
    else:
        t = [S.real("r%d" % i, lo=-10, hi=10) for i in range(3)]
    if which == "change":
        S.assume(S.and_(t[0] < t[1], t[1] < t[2]))
    if which.startswith("qq+quantiles"):
        pl = out.QQ()
        pl.quantiles = [0.1, 0.9]
        pl.axis = ax.No() if which.endswith("/no") else ax.Location()
    elif which.startswith("scatter"):
        pl = out.Scatter()
        pl.simple = True
        pl.axis = ax.No() if which.endswith("/no") else ax.Location()
    elif which == "error/location":
        pl = out.Error()
        pl.axis = ax.Location()
    elif which == "change":
        pl = out.Change()
        pl.thresholds = S.vector(t)
    elif which == "cond":
        pl = out.Cond()
        pl.thresholds = S.vector(t)
    elif which == "droc0":
        pl = out.DRoc0()
        pl.simple = True                # without the threshold labels at the points (text formatting)
        pl.thresholds = S.vector([t[0]])
        pl.bin_type = "above"
    elif which == "performance/time":
        pl = out.Performance()
        pl.simple = True                # without the "potential" curves
        pl.thresholds = S.vector([t[0]])
        pl.bin_type = "above"
        pl.axis = ax.Time()
    elif which == "roc":
        pl = out.Roc()
        pl.thresholds = S.const([1.0])
        pl.quantiles = S.const([0.25, 0.75])       # probability levels (-q)
        pl.bin_type = "below"
    elif which == "discrimination":
        pl = out.Discrimination()
        pl.thresholds = S.const([1.0])
        pl.quantiles = S.const([0.0, 0.5, 1.0])
        pl.bin_type = "below"
    elif which == "pithist":
        pl = out.PitHist()
        pl.thresholds = S.const([0.0, 0.5, 1.0])      # bin edges (-r)
    elif which.startswith("reliability"):
        pl = out.Reliability()
        pl.thresholds = S.const([1.0])
        pl.quantiles = S.const([0.0, 0.5, 1.0])          # bin edges of the forecast probability (-q), an array as the driver passes it
        pl.bin_type = which.split("/")[1]
    elif which.startswith("marginal"):
        pl = out.Marginal()
        pl.thresholds = S.const(THR)
        pl.bin_type = which.split("/")[1]
    else:
        pl = out.TimeSeries()
    stub = mplstub.Pyplot()
    saved = (out.mpl, util.mpl)
    out.mpl = stub
    util.mpl = stub
    try:
        pl.plot(D)
    finally:
        out.mpl, util.mpl = saved
    calls = stub.calls
    plots = calls.find("mpl", "plot")
    series = [c for c in plots if c[3].get("label") in ("A.txt", "B.txt")]
    names = ("A.txt", "B.txt")

    def mean(xs):
        return ref.r_mean(S, xs) if xs else float("nan")

    def same_list(got, want):
        got = S.elements(got)
        return len(got) == len(want) and bool(S.all(S.same(a, b) for a, b in zip(got, want)))

    if which in ("droc0", "performance/time"):
        if not common_cells:
            return      # no valid case at all: what an empty diagram shows is not prescribed
        S.prove("one-series-per-input-in-order", [c[3]["label"] for c in series][:2] == list(names) and len(series) == 2, detail=which)

        def table(k, sel):
            o, fc = raw[k]
            a = S.count(S.and_(fc[q] > t[0], o[q] > t[0]) for q in sel)
            b = S.count(S.and_(fc[q] > t[0], S.not_(o[q] > t[0])) for q in sel)
            c_ = S.count(S.and_(S.not_(fc[q] > t[0]), o[q] > t[0]) for q in sel)
            return a, b, c_, len(sel) - a - b - c_

        def ratio(num, den):
            return S.ite(den == 0, float("nan"), S.div(num, den))
        for k, c in enumerate(series[:2]):
            xs, ys = S.elements(c[2][0]), S.elements(c[2][1])
            S.observe("curve", [xs, ys])
            if which == "droc0":
                S.prove("points-per-curve", len(xs) == 3 and len(ys) == 3, detail=which)
                if len(xs) != 3:
                    continue
                a, b, c_, d = table(k, common_cells)
                S.prove("end-points", S.and_(S.same(xs[0], 1), S.same(ys[0], 1), S.same(xs[2], 0), S.same(ys[2], 0)), detail=which)
                S.prove("point=(false-alarm-rate, hit-rate)-of-the-threshold",
                        S.and_(S.same(xs[1], ratio(b, b + d)), S.same(ys[1], ratio(a, a + c_))),
                        twin=S.same(ys[1], ratio(a, a + c_) + 1), detail=which)
            else:
                S.prove("one-point-per-time", len(xs) == T and len(ys) == T, detail=which)
                for p in range(min(T, len(xs))):
                    a, b, c_, d = table(k, [q for q in common_cells if q[0] == p])
                    far = ratio(b, a + b)
                    S.prove("point=(success-ratio, hit-rate)-of-the-slice",
                            S.and_(S.same(xs[p], 1 - far), S.same(ys[p], ratio(a, a + c_))),
                            twin=S.same(ys[p], ratio(a, a + c_) + 1), detail=which)
        return
    if which == "roc":
        # per input: (1,1), then for each probability level (false alarm rate, hit rate) of "forecast the event
        # when its probability is at least the level", then (0,0); a rate without cases is NaN
        sel = [q for q in cells if valid(q, need_fcst=False, extra=0)]
        S.prove("one-series-per-input-in-order", [c[3]["label"] for c in series][:2] == list(names) and len(series) == 2, detail=which)
        for k, c in enumerate(series[:2]):
            xs, ys = S.elements(c[2][0]), S.elements(c[2][1])
            S.prove("points-per-curve", len(xs) == 4 and len(ys) == 4, detail=which)
            if len(xs) != 4 or not sel:
                continue
            S.prove("end-points", S.and_(S.same(xs[0], 1), S.same(ys[0], 1), S.same(xs[3], 0), S.same(ys[3], 0)), detail=which)
            ev = {q: raw[k][0][q] < 1.0 for q in sel}
            for j, lev in enumerate((0.25, 0.75)):
                yes = {q: rawp[k][q + (0,)] >= lev for q in sel}
                a = S.count(S.and_(yes[q], ev[q]) for q in sel)
                b = S.count(S.and_(yes[q], S.not_(ev[q])) for q in sel)
                n_ev = S.count(ev[q] for q in sel)
                n_no = len(sel) - n_ev
                defined = S.and_(n_ev > 0, n_no > 0)
                S.prove("hit-rate-and-false-alarm-rate-at-the-level",
                        S.ite(defined, S.and_(S.close(ys[1 + j], S.div(a, n_ev)), S.close(xs[1 + j], S.div(b, n_no))),
                              S.and_(S.isnan(ys[1 + j]), S.isnan(xs[1 + j]))),
                        twin=S.ite(defined, S.close(ys[1 + j], S.div(a, n_ev) + 1), False), detail="level %g" % lev)
        return
    if which == "discrimination":
        # per input two bar series: the distribution of the forecast probability over the bins among the cases
        # where the event (obs < 1) was observed / not observed; each distribution sums to 100 %
        bars = calls.find("mpl", "bar")
        sel = [q for q in cells if valid(q, need_fcst=False, extra=0)]
        for k, nm in enumerate(names):
            for tag, want_event in (("not observed", False), ("observed", True)):
                b = [c for c in bars if c[3].get("label") == "%s %s" % (nm, tag)]
                S.prove("two-bar-series-per-input", len(b) == 1, detail="%s %s" % (nm, tag))
                if len(b) != 1:
                    continue
                ys = S.elements(b[0][2][1])
                group = [q for q in sel if bool(raw[k][0][q] < 1.0) == want_event]
                if not group:
                    S.prove("no-case-gives-nan", bool(S.all(S.isnan(y) for y in ys)), detail=tag)
                    continue
                low = S.count(rawp[k][q + (0,)] < 0.5 for q in group)
                S.prove("bar=percentage-of-the-group's-forecasts-in-the-bin",
                        S.and_(S.close(ys[0], S.div(low * 100.0, len(group))), S.close(ys[1], S.div((len(group) - low) * 100.0, len(group)))),
                        twin=S.close(ys[0], S.div(low * 100.0, len(group)) + 1), detail=tag)
                S.prove("each-case-in-exactly-one-bin", S.close(ys[0] + ys[1], 100.0), detail=tag)
        return
    if which == "pithist":
        # one panel per input, in order; bar heights = percentage of the PIT values in [0, .5) and [.5, 1]
        bars = calls.find("mpl", "bar")
        titles = [c[2][0] for c in calls.find("mpl", "title")]
        S.prove("one-panel-per-input-in-order", len(bars) == 2 and titles[:2] == list(names), detail=which)
        sel = [q for q in cells if all(not bool(S.isnan(rawp[k][q])) for k in range(2))]
        for k, c in enumerate(bars[:2]):
            ys = S.elements(c[2][1])
            S.prove("one-bar-per-bin", len(ys) == 2, detail=which)
            if len(ys) != 2 or not sel:
                continue
            lowc = S.count(rawp[k][q] < 0.5 for q in sel)
            # the counts are concrete on the path and the percentages are doubles (100/3 is not exact): tolerance
            S.prove("bar=percentage-of-pit-values-in-the-bin", S.and_(S.close(ys[0], S.div(lowc * 100.0, len(sel))),
                                                                     S.close(ys[1], S.div((len(sel) - lowc) * 100.0, len(sel)))),
                    twin=S.close(ys[0], S.div(lowc * 100.0, len(sel)) + 1), detail=which)
            S.prove("each-case-in-exactly-one-bin", S.close(ys[0] + ys[1], 100.0), detail=which)
        return
    if which.startswith("reliability"):
        below = which.endswith("below")
        edges = [0.0, 0.5, 1.0]
        sel = [q for q in cells if valid(q, need_fcst=False, extra=0)]
        S.prove("one-series-per-input-in-order", [c[3]["label"] for c in series][:2] == list(names) and len(series) == 2, detail=which)
        for k, c in enumerate(series[:2]):
            xs, ys = S.elements(c[2][0]), S.elements(c[2][1])
            S.prove("one-point-per-bin", len(xs) == 2 and len(ys) == 2, detail=which)
            if len(xs) != 2:
                continue
            prob = {q: (rawp[k][q + (0,)] if below else 1 - rawp[k][q + (0,)]) for q in sel}
            counted = 0
            for b in range(2):
                # every probability in [0, 1] belongs to exactly one bin: the top edge belongs to the last bin
                inb = [q for q in sel if bool(S.and_(prob[q] >= edges[b], (prob[q] <= edges[b + 1]) if b == 1 else (prob[q] < edges[b + 1])))]
                counted += len(inb)
                w = mean([prob[q] for q in inb]) if inb else 0.0
                S.prove("bin-x=mean-forecast-probability-of-its-cases", S.same(xs[b], w), twin=S.same(xs[b], w + 1), detail=which)
                S.prove("fewer-than-5-cases-give-no-frequency", bool(S.isnan(ys[b])), detail=which)
            S.prove("each-case-in-exactly-one-bin", counted == len(sel), detail=which)
        return
    if which.startswith("qq+quantiles"):
        # cases need obs, fcst and both quantiles of every input
        sel = [q for q in common_cells if all(valid(q, extra=e) for e in (0, 1))]
        groups = [[q for q in sel if q[2] == p] for p in range(P)] if which.endswith("/location") else [[q] for q in sel]
        if not groups:
            return      # no valid case at all: what an empty diagram shows is not prescribed
        for k, nm in enumerate(names):
            det = [c for c in plots if c[3].get("label") == nm + " (deterministic)"]
            S.prove("one-deterministic-curve-per-input", len(det) == 1, detail=nm)
            if len(det) == 1:
                wx = ref.r_sorted(S, [mean([raw[k][0][q] for q in g]) for g in groups]) if groups else []
                wy = ref.r_sorted(S, [mean([raw[k][1][q] for q in g]) for g in groups]) if groups else []
                if not any(isinstance(w, float) and w != w for w in wx + wy):
                    S.prove("qq-points=sorted-obs-vs-sorted-fcst", same_list(det[0][2][0], wx) and same_list(det[0][2][1], wy), detail=which)
            for qi, lev in enumerate((10, 90)):
                ql = [c for c in plots if c[3].get("label") == "%s (%d%%)" % (nm, lev)]
                S.prove("one-curve-per-input-and-quantile", len(ql) == 1, detail="%s %d%%" % (nm, lev))
                if len(ql) == 1:
                    wq = [mean([rawp[k][q + (qi,)] for q in g]) for g in groups]
                    if not any(isinstance(w, float) and w != w for w in wq):
                        wq = ref.r_sorted(S, wq) if wq else []
                        S.prove("quantile-curve=sorted-values-of-its-own-level", same_list(ql[0][2][1], wq),
                                twin=same_list(ql[0][2][1], [w + 1 for w in wq]) if wq else None, detail="%s %d%%" % (nm, lev))
        return
    if which != "cond":
        S.prove("one-series-per-input-in-order", [c[3]["label"] for c in series][:2] == list(names) and
                (which == "timeseries" or len(series) == 2), detail=which)
    if which == "scatter/no":
        for k, c in enumerate(series[:2]):
            S.prove("points=obs-and-fcst-of-the-common-valid-cases",
                    same_list(c[2][0], [raw[k][0][q] for q in common_cells]) and same_list(c[2][1], [raw[k][1][q] for q in common_cells]),
                    twin=same_list(c[2][0], [raw[k][0][q] + 1 for q in common_cells]) if common_cells else None, detail=which)
        return
    if which == "scatter/location":
        for k, c in enumerate(series[:2]):
            wx = [mean([raw[k][0][q] for q in common_cells if q[2] == p]) for p in range(P)]
            wy = [mean([raw[k][1][q] for q in common_cells if q[2] == p]) for p in range(P)]
            S.prove("points=aggregated-obs-and-fcst-per-slice", same_list(c[2][0], wx) and same_list(c[2][1], wy),
                    twin=same_list(c[2][1], [w + 1 for w in wy]), detail=which)
        return
    if which == "error/location":
        for k, c in enumerate(series[:2]):
            xs, ys = S.elements(c[2][0]), S.elements(c[2][1])
            S.prove("points-per-series", len(xs) == P and len(ys) == P, detail=which)
            for p in range(min(P, len(xs))):
                sel = [q for q in common_cells if q[2] == p]
                if not sel:
                    S.prove("empty-slice-is-nan", S.and_(S.isnan(xs[p]), S.isnan(ys[p])), detail=which)
                    continue
                bias = mean([raw[k][0][q] - raw[k][1][q] for q in sel])
                mse = mean([(raw[k][0][q] - raw[k][1][q]) * (raw[k][0][q] - raw[k][1][q]) for q in sel])
                S.prove("systematic-error=mean(obs-fcst)", S.same(ys[p], bias), twin=S.same(ys[p], bias + 1), detail=which)
                S.prove("unsystematic-error>=0", S.or_(S.isnan(xs[p]), xs[p] >= 0), detail=which)
                S.prove("systematic^2+unsystematic^2=mse", S.or_(S.isnan(xs[p]), S.same(xs[p] * xs[p] + ys[p] * ys[p], mse)),
                        twin=S.same(xs[p] * xs[p] + ys[p] * ys[p], mse + 1), detail=which)
        return
    if which == "change":
        bins = [(t[0], t[1]), (t[1], t[2])]
        for k, c in enumerate(series[:2]):
            xs, ys = S.elements(c[2][0]), S.elements(c[2][1])
            S.prove("one-point-per-bin", len(xs) == 2 and len(ys) == 2, detail=which)
            if len(xs) != 2:
                continue
            o, fc = raw[k]
            pairs = [(q, (q[0] - 1,) + q[1:]) for q in cells if q[0] >= 1]
            pairs = [(q, r) for q, r in pairs if q in common_cells and r in common_cells]
            counted = 0
            for b, (lo, hi) in enumerate(bins):
                sel = [(q, r) for q, r in pairs if bool(S.and_(o[q] - o[r] > lo, o[q] - o[r] <= hi))]
                counted += len(sel)
                S.prove("bin-x=mean-obs-change", S.same(xs[b], mean([o[q] - o[r] for q, r in sel])), detail=which)
                S.prove("bin-y=mae-of-the-cases-with-that-change", S.same(ys[b], mean([S.abs(o[q] - fc[q]) for q, r in sel])),
                        twin=S.same(ys[b], mean([S.abs(o[q] - fc[q]) for q, r in sel]) + 1) if sel else None, detail=which)
            inside = len([1 for q, r in pairs if bool(S.and_(o[q] - o[r] > t[0], o[q] - o[r] <= t[2]))])
            S.prove("each-case-in-exactly-one-bin", counted == inside, detail=which)
        return
    if which == "cond":
        bins = [(t[0], t[1]), (t[1], t[2])]
        for k, nm in enumerate(names):
            o, fc = raw[k]
            l_of = [c for c in plots if c[3].get("label") == nm + " (F|O)"]
            l_fo = [c for c in plots if c[3].get("label") == nm + " (O|F)"]
            S.prove("two-curves-per-input", len(l_of) == 1 and len(l_fo) == 1, detail=nm)
            if len(l_of) != 1 or len(l_fo) != 1:
                continue
            xof, of = S.elements(l_of[0][2][0]), S.elements(l_of[0][2][1])
            fo, xfo = S.elements(l_fo[0][2][0]), S.elements(l_fo[0][2][1])
            for b, (lo, hi) in enumerate(bins):
                selo = [q for q in common_cells if bool(event(S, o[q], "within=", lo, hi))]
                self_ = [q for q in common_cells if bool(event(S, fc[q], "within=", lo, hi))]
                S.prove("F|O:y=mean-fcst-given-obs-in-bin", S.same(of[b], mean([fc[q] for q in selo])),
                        twin=S.same(of[b], mean([fc[q] for q in selo]) + 1) if selo else None, detail=nm)
                S.prove("O|F:x=mean-obs-given-fcst-in-bin", S.same(fo[b], mean([o[q] for q in self_])),
                        twin=S.same(fo[b], mean([o[q] for q in self_]) + 1) if self_ else None, detail=nm)
                wxo = ref.r_percentile(S, [o[q] for q in selo], 50) if selo else float("nan")
                wxf = ref.r_percentile(S, [fc[q] for q in self_], 50) if self_ else float("nan")
                S.prove("F|O:x=median-obs-in-bin", S.same(xof[b], wxo), detail=nm)
                S.prove("O|F:y=median-fcst-in-bin", S.same(xfo[b], wxf), detail=nm)
        return
    if which.startswith("marginal"):
        below = which.endswith("below")
        obs_line = [c for c in plots if c[3].get("label") == "Observed"]
        S.prove("one-observed-line", len(obs_line) == 1, detail=which)
        for k, c in enumerate(series[:2]):
            xs, ys = S.elements(c[2][0]), S.elements(c[2][1])
            S.prove("x=thresholds", same_list(c[2][0], THR), detail=which)
            for ti in range(2):
                sel = [q for q in cells if valid(q, need_fcst=False, extra=ti)]
                w = mean([rawp[k][q + (ti,)] if below else 1 - rawp[k][q + (ti,)] for q in sel])
                S.prove("y=mean-forecast-probability-of-the-event", S.same(ys[ti], w), twin=S.same(ys[ti], w + 1) if sel else None, detail=which)
        if len(obs_line) == 1:
            # the observed frequency drawn is that of the last input's observations (each input has its own)
            ys = S.elements(obs_line[0][2][1])
            for ti in range(2):
                sel = [q for q in cells if valid(q, need_fcst=False, extra=ti)]
                o = raw[1][0]
                w = S.div(S.count((o[q] < THR[ti]) if below else (o[q] > THR[ti]) for q in sel), len(sel)) if sel else float("nan")
                S.prove("observed-frequency-of-the-event", S.same(ys[ti], w), twin=S.same(ys[ti], w + 1) if sel else None, detail=which)
        return
    # timeseries: one observation line over distinct valid times (first occurrence wins), one forecast line per init time and input
    obs_line = [c for c in plots if c[3].get("label") == "obs"]
    S.prove("one-observation-line", len(obs_line) == 1, detail=which)
    vt = sorted(set(86400 * i + int(3600 * l) for i in range(T) for l in lts))
    if len(obs_line) == 1:
        xs, ys = S.elements(obs_line[0][2][0]), S.elements(obs_line[0][2][1])
        S.prove("observation-line-one-point-per-valid-time", len(xs) == len(vt) and len(ys) == len(vt), detail=which)
        if len(ys) == len(vt):
            for j, v in enumerate(vt):
                i, l = [(i, l) for i in range(T) for l in range(L) if 86400 * i + int(3600 * lts[l]) == v][0]
                sel = [(i, l, p) for p in range(P) if valid((i, l, p), need_fcst=False)]
                S.prove("observation-at-valid-time=mean-over-locations", S.same(ys[j], mean([raw[0][0][q] for q in sel])), detail=which)
    lines = [c for c in plots if c[3].get("label") in ("A.txt", "B.txt", "")]
    S.prove("one-forecast-line-per-input-and-init-time", len(lines) == 2 * T, detail=which)
    if len(lines) == 2 * T:
        for k in range(2):
            for i in range(T):
                c = lines[k * T + i]
                xs, ys = S.elements(c[2][0]), S.elements(c[2][1])
                S.prove("forecast-line-x=init+lead", len(xs) == L and bool(S.all(S.close(xs[l] - xs[0], lts[l] / 24.0) for l in range(L))), detail=which)
                for l in range(L):
                    sel = [(i, l, p) for p in range(P) if valid((i, l, p), need_obs=False)]
                    w = mean([raw[k][1][q] for q in sel])
                    S.prove("forecast-line-y=mean-over-locations", S.same(ys[l], w), twin=S.same(ys[l], w + 1) if sel else None, detail=which)



def h_bin_helper(N):
    """util.bin(x, y, edges): bin i holds the cases with edges[i] <= x < edges[i+1];
    every case inside [first edge, last edge) is in exactly one bin."""
    def fn(S):
        util = load.modules["verif.util"]
        x = S.array("x", N, nan=True)
        y = S.array("y", N, nan=False)
        e = [S.real("e%d" % i) for i in range(3)]
        S.assume(S.and_(e[0] < e[1], e[1] < e[2]))
        xx, yy = util.bin(x, y, S.vector(e), func=np.mean) if not S.symbolic else util.bin(x, y, S.vector(e), func=load.modules["verif.util"].np.mean)
        S.observe("xx", xx)
        S.observe("yy", yy)
        xs, ys = S.elements(x), S.elements(y)
        inside_total = 0
        for b in range(2):
            sel = [i for i in range(N) if bool(S.and_(S.not_(S.isnan(xs[i])), xs[i] >= e[b], xs[i] < e[b + 1]))]
            inside_total += len(sel)
            if not sel:
                S.prove("empty-bin-is-nan", S.and_(S.isnan(xx[b]), S.isnan(yy[b])))
                continue
            S.prove("bin-x=mean-of-its-cases", S.same(xx[b], ref.r_mean(S, [xs[i] for i in sel])), twin=S.same(xx[b], ref.r_mean(S, [xs[i] for i in sel]) + 1))
            S.prove("bin-y=func-of-its-cases", S.same(yy[b], ref.r_mean(S, [ys[i] for i in sel])), twin=S.same(yy[b], ref.r_mean(S, [ys[i] for i in sel]) + 1))
        covered = S.count(S.and_(S.not_(S.isnan(v)), v >= e[0], v < e[2]) for v in xs)
        S.prove("each-case-in-exactly-one-bin", S.same(covered, inside_total))
    return fn


def harnesses(tier):
    from harness import c16c, c16d
    thorough = tier == "thorough"
    return [Harness("diagrams", h_diagrams(2, 2 if thorough else 1, 2), "draw-call arguments of 6 diagrams vs their definitions"),
            ] + [Harness("diagrams2." + w, h_diagrams2(w, thorough), "%s diagram vs its definition" % w) for w in DIAGRAMS2 + (DIAGRAMS2_DEV if __import__("os").environ.get("VERIF_DEV") else [])] + [
            Harness("bin_helper", h_bin_helper(3 if thorough else 2), "util.bin: the binning helper of the binned diagrams")] + c16c.harnesses(tier) + c16d.harnesses(tier)
