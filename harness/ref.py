"""Reference (textbook) statistics used by the oracles.

Written on plain Python lists with the session combinators, so the same code is
the z3 oracle under SymSession and the floating-point oracle under
ConcSession.  Nothing here calls verif or the symx NumPy models."""
import math

NAN = float("nan")


def r_sum(S, xs):
    r = 0.0
    for x in xs:
        r = r + x
    return r


def r_mean(S, xs):
    if len(xs) == 0:
        return NAN
    return S.div(r_sum(S, xs), len(xs))


def r_sorted(S, xs):
    """Ascending order by pairwise comparison (forks symbolically)."""
    out = []
    for x in xs:
        pos = len(out)
        while pos > 0 and bool(x < out[pos - 1]):
            pos -= 1
        out.insert(pos, x)
    return out


def r_min(S, xs):
    r = xs[0]
    for x in xs[1:]:
        r = S.ite(x < r, x, r)
    return r


def r_max(S, xs):
    r = xs[0]
    for x in xs[1:]:
        r = S.ite(x > r, x, r)
    return r


def r_var(S, xs):
    n = len(xs)
    if n == 0:
        return NAN
    m = r_mean(S, xs)
    return S.div(r_sum(S, [(x - m) * (x - m) for x in xs]), n)


def r_std(S, xs):
    if len(xs) == 0:
        return NAN
    return S.sqrt(r_var(S, xs))


def r_percentile(S, xs, q):
    """Linear-interpolation percentile (q in [0,100]) as NumPy documents it."""
    n = len(xs)
    if n == 0:
        return NAN
    s = r_sorted(S, xs)
    import fractions
    h = fractions.Fraction(repr(float(q))) / 100 * (n - 1)
    lo = int(math.floor(h))
    frac = float(h - lo)
    if lo + 1 >= n or frac == 0:
        return s[lo]
    return s[lo] + (s[lo + 1] - s[lo]) * frac


def r_median(S, xs):
    n = len(xs)
    if n == 0:
        return NAN
    s = r_sorted(S, xs)
    if n % 2:
        return s[n // 2]
    return S.div(s[n // 2 - 1] + s[n // 2], 2.0)


AGG_NAMES = ["mean", "median", "min", "max", "std", "variance", "iqr", "range", "count", "sum",
             "meanabs", "absmean", "change", "abschange"]
QUANTILE_LEVELS = [0, 0.1, 0.5, 1]
ORDER_PRESERVING = {"mean", "median", "min", "max", "sum", "meanabs", "q0", "q0.1", "q0.5", "q1"}


def r_agg(S, name, xs):
    """The statistic an aggregator name denotes, for a non-empty list of
    finite values."""
    n = len(xs)
    if name == "mean":
        return r_mean(S, xs)
    if name == "median":
        return r_median(S, xs)
    if name == "min":
        return r_min(S, xs)
    if name == "max":
        return r_max(S, xs)
    if name == "std":
        return r_std(S, xs)
    if name == "variance":
        return r_var(S, xs)
    if name == "iqr":
        return r_percentile(S, xs, 75) - r_percentile(S, xs, 25)
    if name == "range":
        return r_max(S, xs) - r_min(S, xs)
    if name == "count":
        return S.count(S.not_(S.isnan(x)) for x in xs)   # number of valid values
    if name == "sum":
        return r_sum(S, xs)
    if name == "meanabs":
        return r_mean(S, [S.abs(x) for x in xs])
    if name == "absmean":
        return S.abs(r_mean(S, xs))
    if name == "change":
        return xs[-1] - xs[0]
    if name == "abschange":
        return S.abs(xs[-1] - xs[0])
    if name.startswith("q"):
        return r_percentile(S, xs, float(name[1:]) * 100)
    raise ValueError(name)


def agg_menu():
    return AGG_NAMES + ["q%g" % q for q in QUANTILE_LEVELS]


def make_aggregator(aggmod, name):
    """verif aggregator object for a menu name (through the public lookup)."""
    if name.startswith("q"):
        return aggmod.get(name[1:])
    return aggmod.get(name)


def r_avg_ranks(S, xs):
    """1-based ranks, ties share the mean of their positions."""
    out = []
    for x in xs:
        less = sum(1 for y in xs if bool(y < x))       # order relations decided by forking
        equal = sum(1 for y in xs if bool(y == x))
        out.append(less + 1 + (equal - 1) / 2.0)
    return out


def r_pearson(S, xs, ys):
    mx, my = r_mean(S, xs), r_mean(S, ys)
    sxy = r_sum(S, [(a - mx) * (b - my) for a, b in zip(xs, ys)])
    sxx = r_sum(S, [(a - mx) * (a - mx) for a in xs])
    syy = r_sum(S, [(b - my) * (b - my) for b in ys])
    return S.div(sxy, S.sqrt(sxx * syy)), S.and_(sxx != 0, syy != 0)


def r_spearman(S, xs, ys):
    """Spearman's rho = Pearson correlation of the average ranks: (value, defined)."""
    return r_pearson(S, r_avg_ranks(S, xs), r_avg_ranks(S, ys))


def r_kendall_b(S, xs, ys):
    """Kendall's tau-b: (value, defined)."""
    n = len(xs)
    conc = disc = tx = ty = 0
    for i in range(n):
        for j in range(i + 1, n):
            same_dir = bool(S.or_(S.and_(xs[i] < xs[j], ys[i] < ys[j]), S.and_(xs[i] > xs[j], ys[i] > ys[j])))
            opp_dir = bool(S.or_(S.and_(xs[i] < xs[j], ys[i] > ys[j]), S.and_(xs[i] > xs[j], ys[i] < ys[j])))
            conc += 1 if same_dir else 0
            disc += 1 if opp_dir else 0
            tx += 1 if bool(S.and_(xs[i] == xs[j], ys[i] != ys[j])) else 0
            ty += 1 if bool(S.and_(ys[i] == ys[j], xs[i] != xs[j])) else 0
    den2 = (conc + disc + tx) * (conc + disc + ty)
    return S.div(conc - disc, S.sqrt(den2 * 1.0)), den2 != 0
