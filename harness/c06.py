"""C06 -- categorical scores equal their 2x2 contingency-table definitions.

Harness `formulas`: every Contingency.compute_from_abcd on symbolic integer
counts a, b, c, d in [0, K]; oracle = textbook formula where its denominators
and log arguments are non-zero, NaN otherwise (never +-inf, never an exception).
Harness `counting`: _compute_abcd / compute_from_obs_fcst on N symbolic
(obs, fcst) pairs, symbolic thresholds, all 8 bin types; oracle = counts of the
documented events (C07), exchange and complement relations."""
import numpy as np

from symx.explore import Harness
from symx import load
from harness.c07 import BIN_TYPES, event

BOUNDS = {
    "quick": {"formulas": "a,b,c,d integers in [0,6], all 25 metrics", "counting": "2 pairs, 2 thresholds, 8 bin types"},
    "thorough": {"formulas": "a,b,c,d integers in [0,40], all 25 metrics", "counting": "3 pairs, 2 thresholds, 8 bin types"},
}
ASSUMPTIONS = [
    "log is an uninterpreted strictly increasing function with log(1)=0; formulas with logarithms are compared in the "
    "algebraic form (log p - log H)/(log p + log H) etc., i.e. modulo the product rule of log",
    "a, b, c, d are the NumPy integer scalars that _compute_abcd produces (no Python-int ZeroDivisionError path)",
]
STUBS = []


def _defs(S):
    """name -> (defined(a,b,c,d), value(a,b,c,d)) from the literature."""
    D = S.div
    L = S.log

    def n(a, b, c, d):
        return a + b + c + d

    def ets_ar(a, b, c, d):
        return D((a + b) * (a + c), n(a, b, c, d))

    def F(a, b, c, d):
        return D(b, b + d)

    def H(a, b, c, d):
        return D(a, a + c)

    def P(a, b, c, d):
        return D(a + c, n(a, b, c, d))

    def Q(a, b, c, d):
        return D(a + b, n(a, b, c, d))

    nz = lambda x: x != 0  # noqa: E731
    A_ = S.and_
    defs = {
        "A": (lambda a, b, c, d: nz(n(a, b, c, d)), lambda a, b, c, d: D(a, n(a, b, c, d))),
        "B": (lambda a, b, c, d: nz(n(a, b, c, d)), lambda a, b, c, d: D(b, n(a, b, c, d))),
        "C": (lambda a, b, c, d: nz(n(a, b, c, d)), lambda a, b, c, d: D(c, n(a, b, c, d))),
        "D": (lambda a, b, c, d: nz(n(a, b, c, d)), lambda a, b, c, d: D(d, n(a, b, c, d))),
        "N": (lambda a, b, c, d: True, lambda a, b, c, d: n(a, b, c, d) * 1.0),
        "Ets": (lambda a, b, c, d: A_(nz(n(a, b, c, d)), nz(a + b + c - ets_ar(a, b, c, d))),
                lambda a, b, c, d: D(a - ets_ar(a, b, c, d), a + b + c - ets_ar(a, b, c, d))),
        "FcstRate": (lambda a, b, c, d: nz(n(a, b, c, d)), lambda a, b, c, d: D(a + b, n(a, b, c, d))),
        "BaseRate": (lambda a, b, c, d: nz(n(a, b, c, d)), lambda a, b, c, d: D(a + c, n(a, b, c, d))),
        "Pc": (lambda a, b, c, d: nz(n(a, b, c, d)), lambda a, b, c, d: D(a + d, n(a, b, c, d))),
        "Dscore": (lambda a, b, c, d: nz((a + c) * (b + d)),
                   lambda a, b, c, d: D(a * d + 0.5 * (a * b + c * d), (a + c) * (b + d))),
        "Threat": (lambda a, b, c, d: nz(a + b + c), lambda a, b, c, d: D(a, a + b + c)),
        "Edi": (lambda a, b, c, d: A_(nz(b + d), nz(a + c), nz(a), nz(b),
                                      nz(L(H(a, b, c, d)) + L(F(a, b, c, d)))),
                lambda a, b, c, d: D(L(F(a, b, c, d)) - L(H(a, b, c, d)), L(F(a, b, c, d)) + L(H(a, b, c, d)))),
        "Sedi": (lambda a, b, c, d: A_(nz(b + d), nz(a + c), nz(a), nz(b), nz(c), nz(d),
                                       nz(L(F(a, b, c, d)) + L(H(a, b, c, d)) + L(1 - F(a, b, c, d)) + L(1 - H(a, b, c, d)))),
                 lambda a, b, c, d: D(L(F(a, b, c, d)) - L(H(a, b, c, d)) - L(1 - F(a, b, c, d)) + L(1 - H(a, b, c, d)),
                                      L(F(a, b, c, d)) + L(H(a, b, c, d)) + L(1 - F(a, b, c, d)) + L(1 - H(a, b, c, d)))),
        "Eds": (lambda a, b, c, d: A_(nz(a + c), nz(a), nz(L(P(a, b, c, d)) + L(H(a, b, c, d)))),
                lambda a, b, c, d: D(L(P(a, b, c, d)) - L(H(a, b, c, d)), L(P(a, b, c, d)) + L(H(a, b, c, d)))),
        "Seds": (lambda a, b, c, d: A_(nz(a + c), nz(a), nz(L(P(a, b, c, d)) + L(H(a, b, c, d)))),
                 lambda a, b, c, d: D(L(Q(a, b, c, d)) - L(H(a, b, c, d)), L(P(a, b, c, d)) + L(H(a, b, c, d)))),
        "BiasFreq": (lambda a, b, c, d: nz(a + c), lambda a, b, c, d: D(a + b, a + c)),
        "Hss": (lambda a, b, c, d: nz((a + c) * (c + d) + (a + b) * (b + d)),
                lambda a, b, c, d: D(2.0 * (a * d - b * c), (a + c) * (c + d) + (a + b) * (b + d))),
        "Or": (lambda a, b, c, d: nz(b * c), lambda a, b, c, d: D(a * d, b * c)),
        "Lor": (lambda a, b, c, d: A_(nz(a * d), nz(b * c)), lambda a, b, c, d: L(D(a * d, b * c))),
        "YulesQ": (lambda a, b, c, d: nz(a * d + b * c), lambda a, b, c, d: D(a * d - b * c, a * d + b * c)),
        "Kss": (lambda a, b, c, d: nz((a + c) * (b + d)), lambda a, b, c, d: D(a * d - b * c, (a + c) * (b + d))),
        "Hit": (lambda a, b, c, d: nz(a + c), lambda a, b, c, d: D(a, a + c)),
        "Miss": (lambda a, b, c, d: nz(a + c), lambda a, b, c, d: D(c, a + c)),
        "Fa": (lambda a, b, c, d: nz(b + d), lambda a, b, c, d: D(b, b + d)),
        "Far": (lambda a, b, c, d: nz(a + b), lambda a, b, c, d: D(b, a + b)),
    }
    return defs


METRICS = ["A", "B", "C", "D", "N", "Ets", "FcstRate", "BaseRate", "Pc", "Dscore", "Threat", "Edi", "Sedi",
           "Eds", "Seds", "BiasFreq", "Hss", "Or", "Lor", "YulesQ", "Kss", "Hit", "Miss", "Fa", "Far"]


def contingency_classes():
    metric = load.modules["verif.metric"]
    out = []
    for name, cls in metric.get_all():
        if issubclass(cls, metric.Contingency) and cls is not metric.Contingency:
            out.append(name)
    return sorted(out)


def h_formulas(K):
    def fn(S):
        metric = load.modules["verif.metric"]
        classes = contingency_classes()
        # the menu is the set of classes the code defines; the oracle table must know each
        S.prove("all-contingency-metrics-have-a-definition", sorted(METRICS) == classes)
        k = S.choose("metric", len(METRICS))
        name = METRICS[k]
        m = getattr(metric, name)()
        a, b, c, d = [S.integer(v, lo=0, hi=K) for v in "abcd"]
        if not S.symbolic:
            a, b, c, d = [np.int64(v) for v in (a, b, c, d)]
        got = m.compute_from_abcd(a, b, c, d)
        S.observe("value", got)
        defined, value = _defs(S)[name]
        ok_def = defined(a, b, c, d)
        want = value(a, b, c, d)
        S.prove("formula=%s" % name, S.implies(ok_def, S.same(got, want)),
                twin=S.implies(ok_def, S.same(got, want + 1)))
        S.prove("undefined-is-nan=%s" % name, S.implies(S.not_(ok_def), S.isnan(got)),
                twin=None if name == "N" else S.implies(S.not_(ok_def), S.not_(S.isnan(got))))
        S.prove("never-infinite=%s" % name, S.not_(S.isinf(got)))
        if m.perfect_score is not None:
            perfect_table = S.and_(b == 0, c == 0, a > 0, d > 0)
            S.prove("perfect-score=%s" % name,
                    S.implies(S.and_(perfect_table, ok_def), S.same(got, float(m.perfect_score))),
                    # Edi/Sedi are undefined on every perfect table (F = 0): no twin there
                    twin=None if name in ("Edi", "Sedi") else
                    S.implies(S.and_(perfect_table, ok_def), S.same(got, float(m.perfect_score) + 1)))
    return fn


def h_counting(N):
    def fn(S):
        metric = load.modules["verif.metric"]
        util = load.modules["verif.util"]
        bk = S.choose("bin", len(BIN_TYPES))
        bin_type = BIN_TYPES[bk]
        t1, t2 = S.real("t1"), S.real("t2")
        obs = S.array("obs", N, nan=True)
        fcst = S.array("fcst", N, nan=True)
        iv = util.get_intervals(bin_type, S.vector([t1, t2]))[0]
        m = metric.Ets()
        a, b, c, d = m._compute_abcd(obs, fcst, iv)
        S.observe("abcd", [a, b, c, d])
        o = S.elements(obs)
        f = S.elements(fcst)
        valid = [S.not_(S.or_(S.isnan(o[i]), S.isnan(f[i]))) for i in range(N)]
        eo = [event(S, o[i], bin_type, t1, t2) for i in range(N)]
        ef = [event(S, f[i], bin_type, t1, t2) for i in range(N)]
        wa = S.count(S.and_(valid[i], ef[i], eo[i]) for i in range(N))
        wb = S.count(S.and_(valid[i], ef[i], S.not_(eo[i])) for i in range(N))
        wc = S.count(S.and_(valid[i], S.not_(ef[i]), eo[i]) for i in range(N))
        wd = S.count(S.and_(valid[i], S.not_(ef[i]), S.not_(eo[i])) for i in range(N))
        nvalid = S.count(valid)
        some = nvalid > 0
        # with no valid pair the counts are masked/NaN; otherwise they are the event counts
        S.prove("hits=%s" % bin_type, S.implies(some, S.same(a, wa)), twin=S.implies(some, S.same(a, wa + 1)))
        S.prove("false-alarms=%s" % bin_type, S.implies(some, S.same(b, wb)), twin=S.implies(some, S.same(b, wb + 1)))
        S.prove("misses=%s" % bin_type, S.implies(some, S.same(c, wc)), twin=S.implies(some, S.same(c, wc + 1)))
        S.prove("correct-rejections=%s" % bin_type, S.implies(some, S.same(d, wd)), twin=S.implies(some, S.same(d, wd + 1)))
        S.prove("counts-sum-to-valid-pairs", S.implies(some, S.same(a + b + c + d, nvalid)))
        # exchange obs <-> fcst: misses and false alarms swap
        a2, b2, c2, d2 = m._compute_abcd(fcst, obs, iv)
        S.prove("exchange-swaps-b-and-c", S.implies(some, S.and_(S.same(a2, a), S.same(b2, c), S.same(c2, b), S.same(d2, d))),
                twin=S.implies(some, S.same(b2, b + 1)))
        # scores through compute_from_obs_fcst: textbook value of the oracle's counts, never inf
        defs = _defs(S)
        for name in ("Hit", "Threat", "Kss", "Far", "BiasFreq", "Or", "Pc"):  # Ets: see `formulas`
            mm = getattr(metric, name)()
            got = mm.compute_from_obs_fcst(obs, fcst, iv)
            S.observe("score." + name, got)
            defined, value = defs[name]
            # a..d were proven equal to the oracle's counts on this very path,
            # so the formula is evaluated on them (keeps the query linear)
            okd = S.and_(some, defined(a, b, c, d))
            S.prove("score=%s" % name, S.implies(okd, S.same(got, value(a, b, c, d))),
                    twin=S.implies(okd, S.same(got, value(a, b, c, d) + 1)))
            S.prove("score-undefined-is-nan=%s" % name, S.implies(S.not_(okd), S.isnan(got)))
    return fn


def h_complement(N):
    """Complementing the event ('above' <-> 'below=') exchanges hits and correct rejections."""
    def fn(S):
        metric = load.modules["verif.metric"]
        util = load.modules["verif.util"]
        t = S.real("t")
        obs = S.array("obs", N, nan=True)
        fcst = S.array("fcst", N, nan=True)
        m = metric.Ets()
        pair = S.choose("pair", 2)
        e1, e2 = [("above", "below="), ("above=", "below")][pair]
        i1 = util.get_intervals(e1, S.vector([t]))[0]
        i2 = util.get_intervals(e2, S.vector([t]))[0]
        a, b, c, d = m._compute_abcd(obs, fcst, i1)
        a2, b2, c2, d2 = m._compute_abcd(obs, fcst, i2)
        S.observe("abcd", [a, b, c, d, a2, b2, c2, d2])
        S.prove("complement-swaps-a-and-d", S.and_(S.same(a2, d), S.same(d2, a), S.same(b2, c), S.same(c2, b)),
                twin=S.same(a2, a + 1))
    return fn


def harnesses(tier):
    thorough = tier == "thorough"
    return [
        Harness("formulas", h_formulas(40 if thorough else 6), "all compute_from_abcd vs textbook formulas"),
        Harness("counting", h_counting(3 if thorough else 2), "_compute_abcd / compute_from_obs_fcst vs event counts"),
        Harness("complement", h_complement(3 if thorough else 2), "complementary event swaps a and d"),
    ]
