"""C03 -- verified dimensions = intersection of the inputs and the user's subset.

Kernel: Data.__init__ with every subsetting argument (lat/lon/elev ranges, -l,
-lx, -t, -d, -tod, -o), _get_common_indices, get_scores obs-range masking.
Oracle: the set-builder expression of the statement (inclusive ranges, -lx
applied last, date = UTC calendar day of the init time, time of day in whole
hours), ascending without duplicates; an empty selection exits with an error or
yields only NaN.  The option -> constructor-argument wiring of the driver is
decided in C13 (dispatch harness)."""
import datetime as real_datetime

import numpy as np

from symx.explore import Harness
from symx import load
from harness import common
from harness.c11 import valid_date, day_no

BOUNDS = {
    "quick": {"locations": "2 stations with symbolic lat/lon/elev, every subset of {latrange, lonrange, elevrange, -l, -lx} with symbolic values",
              "times": "3 symbolic init times in [2023-12-30, 2024-01-02), every subset of {-t, -d, -tod} with one symbolic value each",
              "leadtimes": "2 symbolic lead times, -o with 2 symbolic values", "obsrange": "2x1x2 cells, symbolic end points"},
    "thorough": {"locations": "3 stations, same options", "times": "3 init times, -t/-d/-tod with up to 2 values",
                 "leadtimes": "3 lead times, -o with 2 values", "obsrange": "2x2x2 cells"},
}
ASSUMPTIONS = ["station latitudes lie in [-90, 90] and longitudes in [-180, 180] (decimal degrees, as the Location docstring says)",
               "station ids are distinct integers", "-d values are valid YYYYMMDD dates", "-tod values are whole hours 0..23",
               "range options are given as [lo, hi] with lo <= hi"]
STUBS = ["inputs are in-memory verif.input.Input subclasses", "driver_options: get_input / Data / output actions are recorders (see C13)"]


def all_nan_scores(S, D):
    f = load.modules["verif.field"]
    ax = load.modules["verif.axis"]
    o, fc = D.get_scores([f.Obs(), f.Fcst()], 0, ax.No(), None)
    return S.all(S.isnan(x) for x in S.elements(o) + S.elements(fc))


def h_locations(P):
    def fn(S):
        data = load.modules["verif.data"]
        MI = common.input_class()
        ids = [3, 7, 12][:P]
        lats = [S.real("lat%d" % i, lo=-90, hi=90) for i in range(P)]
        lons = [S.real("lon%d" % i, lo=-180, hi=180) for i in range(P)]
        elevs = [S.real("elev%d" % i, lo=-400, hi=9000) for i in range(P)]
        shape = (1, 1, P)
        inp = MI("A.txt", common.int_array(S, [0]), S.vector([0.0]), common.locations(ids, lats, lons, elevs),
                 obs=S.array("obs", shape, nan=False), fcst=S.array("fcst", shape, nan=False))
        opts = S.choose("options", 32)
        kw = {}
        use = {name: bool(opts & (1 << b)) for b, name in enumerate(["lat", "lon", "elev", "l", "lx"])}

        def rng(name, lo, hi):
            a, b = S.real(name + ".lo", lo=lo, hi=hi), S.real(name + ".hi", lo=lo, hi=hi)
            S.assume(a <= b)
            return [a, b]
        if use["lat"]:
            kw["lat_range"] = rng("latrange", -90, 90)
        if use["lon"]:
            kw["lon_range"] = rng("lonrange", -180, 180)
        if use["elev"]:
            kw["elev_range"] = rng("elevrange", -400, 9000)
        if use["l"]:
            kw["locations"] = [S.integer("l%d" % i, lo=0, hi=15) for i in range(2)]
        if use["lx"]:
            kw["locations_x"] = [S.integer("lx0", lo=0, hi=15)]
        D, code = common.catch_exit(data.Data, [inp], **dict(kw))
        keep = []
        for i in range(P):
            c = True
            if use["lat"] or use["lon"]:
                if use["lat"]:
                    c = S.and_(c, lats[i] >= kw["lat_range"][0], lats[i] <= kw["lat_range"][1])
                if use["lon"]:
                    c = S.and_(c, lons[i] >= kw["lon_range"][0], lons[i] <= kw["lon_range"][1])
            if use["elev"]:
                c = S.and_(c, elevs[i] >= kw["elev_range"][0], elevs[i] <= kw["elev_range"][1])
            if use["l"]:
                c = S.and_(c, S.any(ids[i] == x for x in kw["locations"]))
            if use["lx"]:
                c = S.and_(c, S.not_(S.any(ids[i] == x for x in kw["locations_x"])))
            keep.append(c)
        want = [ids[i] for i in range(P) if bool(keep[i])]
        tag = "+".join(k for k in ("lat", "lon", "elev", "l", "lx") if use[k]) or "none"
        if code is not None:
            S.prove("error-exit-only-for-empty-selection", len(want) == 0 and code != 0, detail=tag)
            return
        got = [loc.id for loc in D.locations]
        S.observe("ids", got)
        if not want:
            S.prove("empty-selection-gives-no-number", len(got) == 0 and bool(all_nan_scores(S, D)), detail=tag)
            return
        S.prove("verified-locations=set-builder", got == want, detail=tag)
    return fn


def h_times(nvals):
    d0 = day_no(real_datetime.date(2023, 12, 30))

    def fn(S):
        data = load.modules["verif.data"]
        MI = common.input_class()
        T = 3
        ts = [S.integer("t%d" % i, lo=d0 * 86400, hi=(d0 + 3) * 86400 - 1) for i in range(T)]
        for i in range(T - 1):
            S.assume(ts[i] < ts[i + 1])
        shape = (T, 1, 1)
        inp = MI("A.txt", common.int_array(S, ts), S.vector([0.0]), common.locations([1]),
                 obs=S.array("obs", shape, nan=False), fcst=S.array("fcst", shape, nan=False))
        opts = S.choose("options", 8)
        use = {name: bool(opts & (1 << b)) for b, name in enumerate(["t", "d", "tod"])}
        kw = {}
        if use["t"]:
            kw["times"] = [S.integer("-t%d" % i, lo=d0 * 86400, hi=(d0 + 3) * 86400 - 1) for i in range(nvals)]
        if use["d"]:
            kw["dates"] = [S.integer("-d%d" % i, lo=20231229, hi=20240102) for i in range(nvals)]
            for d in kw["dates"]:
                S.assume(valid_date(S, d))
        if use["tod"]:
            kw["tods"] = [S.integer("-tod%d" % i, lo=0, hi=23) for i in range(nvals)]
        D, code = common.catch_exit(data.Data, [inp], **dict(kw))

        def date_of(t):
            # UTC calendar day of t as YYYYMMDD, stated from the day number
            out = None
            for k in range(3):
                dd = real_datetime.date(1970, 1, 1) + real_datetime.timedelta(days=d0 + k)
                val = dd.year * 10000 + dd.month * 100 + dd.day
                cond = S.and_(t >= (d0 + k) * 86400, t < (d0 + k + 1) * 86400)
                out = val if out is None else S.ite(cond, val, out)
            return out
        keep = []
        for t in ts:
            c = True
            if use["t"]:
                c = S.and_(c, S.any(t == x for x in kw["times"]))
            if use["d"]:
                c = S.and_(c, S.any(date_of(t) == x for x in kw["dates"]))
            if use["tod"]:
                c = S.and_(c, S.any((t % 86400) == x * 3600 for x in kw["tods"]))
            keep.append(c)
        want = [t for t, c in zip(ts, keep) if bool(c)]
        tag = "+".join(k for k in ("t", "d", "tod") if use[k]) or "none"
        if code is not None:
            S.prove("error-exit-only-for-empty-selection", len(want) == 0 and code != 0, detail=tag)
            return
        got = list(D.times)
        S.observe("times", got)
        if not want:
            S.prove("empty-selection-gives-no-number", len(got) == 0 and bool(all_nan_scores(S, D)), detail=tag)
            return
        S.prove("verified-times=set-builder", len(got) == len(want) and bool(S.all(g == w for g, w in zip(got, want))),
                detail=tag)
        f = load.modules["verif.field"]
        ax = load.modules["verif.axis"]
        arr = S.elements(D.get_scores(f.Fcst(), 0, ax.All(), None))
        cells = S.elements(inp.fcst)
        S.prove("data-follow-the-selected-times", len(arr) == len(want) and
                bool(S.all(S.same(a, cells[ts.index(w)]) for a, w in zip(arr, want))), detail=tag)
    return fn


def h_leadtimes(L):
    def fn(S):
        data = load.modules["verif.data"]
        MI = common.input_class()
        lts = [S.real("lt%d" % i, lo=0, hi=240) for i in range(L)]
        for i in range(L - 1):
            S.assume(lts[i] < lts[i + 1])
        shape = (1, L, 1)
        inp = MI("A.txt", common.int_array(S, [0]), S.vector(lts), common.locations([1]),
                 obs=S.array("obs", shape, nan=False), fcst=S.array("fcst", shape, nan=False))
        sel = [S.real("-o%d" % i, lo=0, hi=240) for i in range(2)]
        D, code = common.catch_exit(data.Data, [inp], leadtimes=sel)
        want = [x for x in lts if bool(S.any(x == s for s in sel))]
        if code is not None:
            S.prove("error-exit-only-for-empty-selection", len(want) == 0 and code != 0)
            return
        got = list(D.leadtimes)
        S.observe("leadtimes", got)
        S.prove("verified-leadtimes=set-builder", len(got) == len(want) and bool(S.all(S.same(g, w) for g, w in zip(got, want))),
                twin=len(got) == len(want) and len(got) > 0 and bool(S.same(got[0], want[0] + 1)))
    return fn


def h_obsrange(T, L, P):
    def fn(S):
        data = load.modules["verif.data"]
        f = load.modules["verif.field"]
        ax = load.modules["verif.axis"]
        MI = common.input_class()
        shape = (T, L, P)
        obs, fcst = S.array("obs", shape), S.array("fcst", shape)
        lo, hi = S.real("lo"), S.real("hi")
        S.assume(lo <= hi)
        # the observation is the obs column, or another column designated with -obs FIELD
        designated = S.choose("obs-field", 2)
        stored_obs = S.array("stored-obs", shape, nan=False) if designated else obs
        inp = MI("A.txt", common.int_array(S, [86400 * i for i in range(T)]), S.vector([0.0, 30.0][:L]),
                 common.locations(list(range(1, P + 1))), obs=stored_obs.copy(), fcst=fcst.copy(),
                 others={"extra": obs.copy()} if designated else None)
        D = data.Data([inp], obs_range=[lo, hi], obs_field=f.Other("extra")) if designated else data.Data([inp], obs_range=[lo, hi])
        which = S.choose("request", 3)
        cells = list(np.ndindex(*shape))
        if which == 0:
            r = D.get_scores(f.Obs(), 0, ax.All(), None)
            for c in cells:
                inside = S.and_(S.not_(S.isnan(obs[c])), obs[c] >= lo, obs[c] <= hi)
                S.prove("obs-kept-iff-inside-inclusive-range", S.iff(S.not_(S.isnan(r[c])), inside),
                        twin=S.iff(S.not_(S.isnan(r[c])), S.not_(inside)))
                S.prove("obs-value-unchanged", S.implies(inside, S.same(r[c], obs[c])))
        elif which == 1:
            o, fc = D.get_scores([f.Obs(), f.Fcst()], 0, ax.No(), None)
            want = [c for c in cells if bool(S.and_(S.not_(S.isnan(obs[c])), S.not_(S.isnan(fcst[c])), obs[c] >= lo, obs[c] <= hi))]
            oe, fe = S.elements(o), S.elements(fc)
            S.observe("pairs", [oe, fe])
            if not want:
                S.prove("nothing-selected-gives-nan", len(oe) == 1 and bool(S.isnan(oe[0])))
            else:
                S.prove("cases-outside-obs-range-discarded", len(oe) == len(want) and
                        bool(S.all(S.and_(S.same(a, obs[c]), S.same(b, fcst[c])) for a, b, c in zip(oe, fe, want))))
        else:
            fc = D.get_scores(f.Fcst(), 0, ax.All(), None)
            S.prove("forecast-only-requests-are-not-affected", S.same_arrays(fc, fcst))
    return fn


def h_obsrange_clim(T, L, P):
    """-obsrange together with -c / -C: the range applies to the observation itself, not to its anomaly."""
    def fn(S):
        data = load.modules["verif.data"]
        f = load.modules["verif.field"]
        ax = load.modules["verif.axis"]
        MI = common.input_class()
        shape = (T, L, P)
        obs, fcst = S.array("obs", shape), S.array("fcst", shape, nan=False)
        clim = S.array("clim", shape, nan=False)
        lo, hi = S.real("lo"), S.real("hi")
        S.assume(lo <= hi)
        ctype = ["subtract", "divide"][S.choose("clim_type", 2)]
        cells = list(np.ndindex(*shape))
        if ctype == "divide":
            for c in cells:
                S.assume(S.not_(clim[c] == 0))        # non-finite quotients are C14's subject

        def mk(name, o, fc):
            return MI(name, common.int_array(S, [86400 * i for i in range(T)]), S.vector([0.0, 30.0][:L]),
                      common.locations(list(range(1, P + 1))), obs=o, fcst=fc)
        inp = mk("A.txt", obs.copy(), fcst.copy())
        X = mk("X.txt", clim.copy(), clim.copy())
        D = data.Data([inp], clim=X, clim_type=ctype, obs_range=[lo, hi])
        if S.choose("whole-array-first", 2):
            D.get_scores(f.Obs(), 0, ax.All(), None)         # what the driver does when it invents thresholds
        o, fc = D.get_scores([f.Obs(), f.Fcst()], 0, ax.No(), None)
        want = [c for c in cells if bool(S.and_(S.not_(S.isnan(obs[c])), obs[c] >= lo, obs[c] <= hi))]
        oe, fe = S.elements(o), S.elements(fc)
        S.observe("pairs", [oe, fe])
        if not want:
            S.prove("nothing-selected-gives-nan", len(oe) == 1 and bool(S.isnan(oe[0])), detail=ctype)
            return

        def anom(v, c):
            return v - clim[c] if ctype == "subtract" else S.div(v, clim[c])
        S.prove("obs-range-applies-to-the-observation-not-the-anomaly", len(oe) == len(want) and
                bool(S.all(S.and_(S.same(a, anom(obs[c], c)), S.same(b, anom(fcst[c], c))) for a, b, c in zip(oe, fe, want))), detail=ctype)
    return fn


SUBSET_OPTIONS = ["-latrange", "-lonrange", "-elevrange", "-obsrange", "-l", "-lx", "-o", "-t", "-d", "-tod"]


def harnesses(tier):
    thorough = tier == "thorough"
    from harness import c13
    return [
        Harness("driver_options", c13.h_dispatch(only=SUBSET_OPTIONS),
                "each subsetting option reaches exactly its Data keyword, at any position (driver.run with recorders)"),
        Harness("locations", h_locations(3 if thorough else 2), "lat/lon/elev ranges, -l, -lx"),
        Harness("times", h_times(2 if thorough else 1), "-t, -d, -tod on symbolic init times"),
        Harness("leadtimes", h_leadtimes(3 if thorough else 2), "-o on symbolic lead times"),
        Harness("obsrange", h_obsrange(2, 2 if thorough else 1, 2), "-obsrange masking"),
        Harness("obsrange.clim", h_obsrange_clim(2, 1, 2 if thorough else 1), "-obsrange together with -c / -C"),
    ]
