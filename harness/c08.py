"""C08 -- probabilistic scores follow their definitions; event probability from the CDF.

Kernel: metric.get_p / get_q, Data._get_score threshold / quantile / ensemble
branches, the Brier family (10 bins, top edge inclusive), quantile score,
coverage, spread, spread-skill ratio, binary ignorance, spherical score,
marginal ratio, Threshold / Quantile means and the PIT statistics."""
import numpy as np

from symx.explore import Harness
from symx import load
from harness import common
from harness import shared, ref
from harness.c07 import BIN_TYPES, event

BOUNDS = {
    "quick": {"event_prob": "2 cases, cdf stored at thresholds {1, 3}, 2 ensemble members, requested thresholds stored or not, 8 bin types",
              "brier": "2 (probability, outcome) pairs, probabilities anywhere in [0,1] incl. bin edges, 7 Brier classes",
              "quantile": "2 cases, quantiles stored at {0.1, 0.9}, 3 members, levels stored or not", "pit": "2 PIT values",
              "scores": "2 cases"},
    "thorough": {"event_prob": "3 cases, 3 members", "brier": "3 pairs", "quantile": "3 cases", "pit": "3 PIT values", "scores": "3 cases"},
}
ASSUMPTIONS = ["stored probabilities lie in [0,1] or are NaN; ensemble members, observations, quantile values are real or NaN",
               "PIT randomisation (np.random, variables with x0/x1) is outside the model",
               "log2 (ignorance) is an uninterpreted monotone function; scipy.stats.norm.ppf is evaluated by SciPy on concrete levels"]
STUBS = ["inputs are in-memory verif.input.Input subclasses"]


def mk_data(S, N, thresholds=None, quantiles=None, members=0, pit=False, nan=True):
    data = load.modules["verif.data"]
    MI = common.input_class()
    shape = (N, 1, 1)
    obs = S.array("obs", shape, nan=nan)
    fcst = S.array("fcst", shape, nan=nan)
    kw = {}
    raw = {"obs": [obs[i, 0, 0] for i in range(N)], "fcst": [fcst[i, 0, 0] for i in range(N)]}
    if thresholds is not None:
        cdf = S.array("cdf", shape + (len(thresholds),), nan=nan, lo=0, hi=1)
        kw["thresholds"] = S.const(thresholds)
        kw["threshold_scores"] = cdf
        raw["cdf"] = [[cdf[i, 0, 0, k] for k in range(len(thresholds))] for i in range(N)]
    if quantiles is not None:
        x = S.array("x", shape + (len(quantiles),), nan=nan)
        kw["quantiles"] = S.const(quantiles)
        kw["quantile_scores"] = x
        raw["x"] = [[x[i, 0, 0, k] for k in range(len(quantiles))] for i in range(N)]
    if members:
        ens = S.array("ens", shape + (members,), nan=nan)
        kw["ensemble"] = ens
        raw["ens"] = [[ens[i, 0, 0, m] for m in range(members)] for i in range(N)]
    if pit:
        pv = S.array("pit", shape, nan=nan, lo=0, hi=1)
        kw["pit"] = pv
        raw["pit"] = [pv[i, 0, 0] for i in range(N)]
    inp = MI("A.txt", common.int_array(S, [86400 * i for i in range(N)]), S.vector([0.0]), common.locations([1]),
             obs=obs, fcst=fcst, **kw)
    return data.Data([inp]), raw


def cdf_at(S, raw, i, thr, stored):
    """P(X <= thr) for case i: the stored CDF, else the fraction of present members <= thr."""
    if thr in stored:
        return raw["cdf"][i][stored.index(thr)]
    members = raw["ens"][i]
    present = [S.not_(S.isnan(m)) for m in members]
    npres = S.count(present)
    below = S.count(S.and_(p, m <= thr) for p, m in zip(present, members))
    return S.div(below, npres)       # 0/0 = NaN when no member is present


def h_event_prob(N, M):
    stored = [1.0, 3.0]
    requests = [(1.0, 3.0), (2.0, 3.0), (1.0, 2.5)]

    def fn(S):
        metric = load.modules["verif.metric"]
        util = load.modules["verif.util"]
        ax = load.modules["verif.axis"]
        D, raw = mk_data(S, N, thresholds=stored, members=M)
        bin_type = BIN_TYPES[S.choose("bin", len(BIN_TYPES))]
        lo, hi = requests[S.choose("request", len(requests))]
        iv = util.get_intervals(bin_type, S.const([lo, hi]))[0]
        obsP, p = metric.get_p(D, 0, ax.No(), None, iv)
        oe = S.elements(obsP)
        pe = S.elements(p) if not isinstance(p, (int, float)) else [p] * len(oe)
        S.observe("obsP", oe)
        S.observe("p", pe)
        want = []
        for i in range(N):
            if bin_type.startswith("below"):
                pw, need = cdf_at(S, raw, i, lo, stored), [lo]
            elif bin_type.startswith("above"):
                pw, need = 1 - cdf_at(S, raw, i, lo, stored), [lo]
            else:
                pw, need = cdf_at(S, raw, i, hi, stored) - cdf_at(S, raw, i, lo, stored), [lo, hi]
            o = raw["obs"][i]
            ok = S.and_(S.not_(S.isnan(o)), S.not_(S.isnan(pw)), *[S.not_(S.isnan(cdf_at(S, raw, i, t, stored))) for t in need])
            if bool(ok):
                want.append((S.ite(event(S, o, bin_type, lo, hi), 1.0, 0.0), pw))
        tag = "%s/%s-%s" % (bin_type, lo, hi)
        if not want:
            S.prove("no-valid-case-is-nan", len(oe) == 1 and bool(S.isnan(oe[0])), detail=tag)
            return
        S.prove("valid-cases", len(oe) == len(want) and len(pe) == len(want), detail=tag)
        if len(oe) != len(want):
            return
        for k, (ow, pw) in enumerate(want):
            S.prove("event-probability=P(upper)-P(lower)", S.same(pe[k], pw), twin=S.same(pe[k], pw + 1), detail=tag)
            S.prove("observed-event", S.same(oe[k], ow), twin=S.same(oe[k], 1 - ow), detail=tag)
    return fn


BRIER = ["Bs", "BsRel", "BsRes", "BsUnc", "Bss", "BssRel", "BssRes"]


# The ten bins are bounded by the doubles np.linspace(0, 1, 11) produces (three of them, e.g.
# 0.30000000000000004, are one ulp above the decimal); rounding is outside the claim, so the
# oracle takes the edges as data.
EDGES = [float(x) for x in np.linspace(0, 1, 11)]


def bin_of(S, p):
    """index of the probability bin [e_k, e_k+1), the last one closed at 1."""
    for k in range(9):
        if bool(p < EDGES[k + 1]):
            return k
    return 9


def brier_terms(S, o, p):
    n = len(o)
    mean = lambda xs: ref.r_mean(S, xs)  # noqa: E731
    obar = mean(o)
    bins = [bin_of(S, x) for x in p]
    members = {k: [i for i in range(n) if bins[i] == k] for k in set(bins)}
    obar_k = {k: mean([o[i] for i in idx]) for k, idx in members.items()}
    pbar_k = {k: mean([p[i] for i in idx]) for k, idx in members.items()}
    bs = mean([(p[i] - o[i]) * (p[i] - o[i]) for i in range(n)])
    unc = mean([(obar - o[i]) * (obar - o[i]) for i in range(n)])
    res = S.div(S.sum(len(idx) * (obar_k[k] - obar) * (obar_k[k] - obar) for k, idx in members.items()), n)
    rel_cases = mean([(p[i] - obar_k[bins[i]]) * (p[i] - obar_k[bins[i]]) for i in range(n)])
    rel_textbook = S.div(S.sum(len(idx) * (pbar_k[k] - obar_k[k]) * (pbar_k[k] - obar_k[k]) for k, idx in members.items()), n)
    single = S.all(S.same(p[i], pbar_k[bins[i]]) for i in range(n))
    return {"bs": bs, "unc": unc, "res": res, "rel": rel_cases, "rel_textbook": rel_textbook, "single": single}


def h_brier(N):
    def fn(S):
        metric = load.modules["verif.metric"]
        p = [S.real("p%d" % i, lo=0, hi=1) for i in range(N)]
        o = [float(S.choose("o%d" % i, 2)) for i in range(N)]
        pv, ov = S.vector(p), S.const(o)
        t = brier_terms(S, o, p)
        got = {}
        for name in BRIER:
            got[name] = getattr(metric, name)().compute_from_obs_fcst(ov, pv)
            S.observe(name, got[name])
        und = t["unc"] == 0
        S.prove("bs=mean((p-o)^2)", S.same(got["Bs"], t["bs"]), twin=S.same(got["Bs"], t["bs"] + 1))
        S.prove("uncertainty=obar(1-obar)", S.same(got["BsUnc"], t["unc"]), twin=S.same(got["BsUnc"], t["unc"] + 1))
        S.prove("resolution(10 bins, top edge inclusive)", S.same(got["BsRes"], t["res"]), twin=S.same(got["BsRes"], t["res"] + 1))
        S.prove("reliability(10 bins, top edge inclusive)", S.same(got["BsRel"], t["rel"]), twin=S.same(got["BsRel"], t["rel"] + 1))
        S.prove("reliability=textbook-when-one-value-per-bin", S.implies(t["single"], S.same(got["BsRel"], t["rel_textbook"])))
        S.prove("bs=rel-res+unc-when-one-value-per-bin",
                # observed frequencies are concrete doubles on the path (1/3 is not exact): compare with a tolerance
                S.implies(t["single"], S.close(got["Bs"], got["BsRel"] - got["BsRes"] + got["BsUnc"])),
                twin=S.implies(t["single"], S.close(got["Bs"], got["BsRel"] - got["BsRes"] + got["BsUnc"] + 1)))
        S.prove("bss=(unc-bs)/unc", S.ite(und, S.isnan(got["Bss"]), S.same(got["Bss"], S.div(t["unc"] - t["bs"], t["unc"]))))
        S.prove("bssrel=rel/unc", S.ite(und, S.isnan(got["BssRel"]), S.same(got["BssRel"], S.div(t["rel"], t["unc"]))))
        S.prove("bssres=res/unc", S.ite(und, S.isnan(got["BssRes"]), S.same(got["BssRes"], S.div(t["res"], t["unc"]))))
        # the Brier score of an event equals that of its complement
        comp = metric.Bs().compute_from_obs_fcst(S.const([1 - x for x in o]), S.vector([1 - x for x in p]))
        S.prove("bs(event)=bs(complement)", S.same(got["Bs"], comp), twin=S.same(got["Bs"], comp + 1))
        S.prove("perfect-brier", S.implies(S.all(S.same(a, b) for a, b in zip(p, o)), S.same(got["Bs"], 0.0)))
    return fn


def h_quantile(N, M):
    stored = [0.1, 0.9]

    def fn(S):
        metric = load.modules["verif.metric"]
        util = load.modules["verif.util"]
        iv_mod = load.modules["verif.interval"]
        ax = load.modules["verif.axis"]
        f = load.modules["verif.field"]
        D, raw = mk_data(S, N, quantiles=stored, members=M)
        which = S.choose("metric", 5)

        def q_at(i, level):
            if level in stored:
                return raw["x"][i][stored.index(level)]
            return None
        if which == 0:      # stored quantiles are returned as they are
            level = stored[S.choose("level", 2)]
            arr = D.get_scores(f.Quantile(level), 0, ax.All(), None)
            for i in range(N):
                S.prove("stored-quantile-returned-as-is", S.same(arr[i, 0, 0], q_at(i, level)), twin=S.same(arr[i, 0, 0], q_at(i, level) + 1))
            return
        if which == 1:      # unstored quantiles come from the ensemble: within range, monotone in the level
            lv = [0.25, 0.5, 0.75]
            arrs = [D.get_scores(f.Quantile(x), 0, ax.All(), None) for x in lv]
            for i in range(N):
                mem = raw["ens"][i]
                anynan = S.any(S.isnan(m) for m in mem)
                vals = [a[i, 0, 0] for a in arrs]
                S.observe("ensq", vals)
                lo, hi = ref.r_min(S, mem), ref.r_max(S, mem)
                S.prove("ensemble-quantile-missing-iff-a-member-missing", S.iff(S.isnan(vals[1]), anynan))
                S.prove("ensemble-quantile-within-ensemble-range", S.implies(S.not_(anynan), S.all(S.and_(v >= lo, v <= hi) for v in vals)),
                        twin=S.implies(S.not_(anynan), vals[0] > hi))
                S.prove("ensemble-quantile-nondecreasing-in-level",
                        S.implies(S.not_(anynan), S.and_(vals[0] <= vals[1], vals[1] <= vals[2])))
                if M % 2 == 1:
                    med = ref.r_median(S, mem) if not bool(anynan) else float("nan")
                    S.prove("ensemble-median", S.implies(S.not_(anynan), S.same(vals[1], med)))
            return
        level = 0.1
        o, q = [raw["obs"][i] for i in range(N)], [q_at(i, 0.1) for i in range(N)]
        q9 = [q_at(i, 0.9) for i in range(N)]
        if which == 2:
            iv = iv_mod.Interval(0.1, np.inf, True, True)
            got = metric.QuantileScore().compute(D, 0, ax.No(), iv)[0]
            valid = [i for i in range(N) if bool(S.and_(S.not_(S.isnan(o[i])), S.not_(S.isnan(q[i]))))]
            if not valid:
                S.prove("no-valid-case-is-nan", S.isnan(got))
                return
            want = ref.r_mean(S, [(o[i] - q[i]) * (level - S.ite(o[i] < q[i], 1.0, 0.0)) for i in valid])
            S.observe("qs", got)
            S.prove("pinball-loss", S.same(got, want), twin=S.same(got, want + 1))
            S.prove("pinball-nonnegative", got >= 0)
        elif which == 3:
            bt = ["within", "=within", "within=", "=within="][S.choose("bin", 4)]
            iv = util.get_intervals(bt, S.const(stored))[0]
            got = metric.QuantileCoverage().compute(D, 0, ax.No(), iv)[0]
            valid = [i for i in range(N) if bool(S.and_(S.not_(S.isnan(o[i])), S.not_(S.isnan(q[i])), S.not_(S.isnan(q9[i]))))]
            if not valid:
                S.prove("no-valid-case-is-nan", S.isnan(got))
                return
            inside = S.count(event(S, o[i], bt, q[i], q9[i]) for i in valid)
            S.observe("coverage", got)
            S.prove("coverage=%s" % bt, S.same(got, S.div(inside, len(valid))), twin=S.same(got, S.div(inside, len(valid)) + 1))
        else:
            iv = util.get_intervals("within", S.const(stored))[0]
            got = metric.Spread().compute(D, 0, ax.No(), iv)[0]
            valid = [i for i in range(N) if bool(S.and_(S.not_(S.isnan(q[i])), S.not_(S.isnan(q9[i]))))]
            if not valid:
                S.prove("no-valid-case-is-nan", S.isnan(got))
                return
            want = ref.r_mean(S, [q9[i] - q[i] for i in valid])
            S.observe("spread", got)
            S.prove("spread=mean(q_upper-q_lower)", S.same(got, want), twin=S.same(got, want + 1))
            got2 = metric.SpreadSkillRatio().compute(D, 0, ax.No(), iv)[0]
            v2 = [i for i in valid if bool(S.and_(S.not_(S.isnan(o[i])), S.not_(S.isnan(raw["fcst"][i]))))]
            if v2:
                import scipy.stats
                nstd = 0.5 * (scipy.stats.norm.ppf(0.9) - scipy.stats.norm.ppf(0.1))
                sp = ref.r_mean(S, [q9[i] - q[i] for i in v2])
                sk = S.sqrt(ref.r_mean(S, [(o[i] - raw["fcst"][i]) * (o[i] - raw["fcst"][i]) for i in v2]))
                w2 = S.div(S.div(sp, float(nstd)), sk)
                S.prove("spread-skill-ratio", S.or_(S.and_(S.isnan(got2), S.isnan(w2)), S.same(got2, w2)))
    return fn


def h_scores(N):
    stored = [1.0, 3.0]

    def fn(S):
        metric = load.modules["verif.metric"]
        util = load.modules["verif.util"]
        ax = load.modules["verif.axis"]
        D, raw = mk_data(S, N, thresholds=stored)
        which = S.choose("metric", 6)
        bt = ["below", "above=", "within="][S.choose("bin", 3)]
        iv = util.get_intervals(bt, S.const(stored))[0]
        o = raw["obs"]
        c1 = [raw["cdf"][i][0] for i in range(N)]
        c3 = [raw["cdf"][i][1] for i in range(N)]
        if bt == "below":
            pr, need = c1, [c1]
        elif bt == "above=":
            pr, need = [1 - x for x in c1], [c1]
        else:
            pr, need = [b - a for a, b in zip(c1, c3)], [c1, c3]
        valid = [i for i in range(N) if bool(S.all([S.not_(S.isnan(o[i]))] + [S.not_(S.isnan(x[i])) for x in need]))]
        ev = {i: event(S, o[i], bt, 1.0, 3.0) for i in valid}
        name = ["Bs", "Ign0", "Spherical", "MarginalRatio", "Threshold", "BsUnc"][which]
        if name == "Threshold":
            # mean probability: observations are not needed
            valid = [i for i in range(N) if bool(S.all(S.not_(S.isnan(x[i])) for x in need))]
        got = getattr(metric, name)().compute(D, 0, ax.No(), iv)[0]
        S.observe(name, got)
        tag = "%s/%s" % (name, bt)
        if not valid:
            S.prove("no-valid-case-is-nan", S.isnan(got), detail=tag)
            return
        if name == "Bs":
            want = ref.r_mean(S, [(pr[i] - S.ite(ev[i], 1.0, 0.0)) * (pr[i] - S.ite(ev[i], 1.0, 0.0)) for i in valid])
        elif name == "BsUnc":
            evs = [S.ite(ev[i], 1.0, 0.0) for i in valid]
            ob = ref.r_mean(S, evs)
            want = ref.r_mean(S, [(ob - e) * (ob - e) for e in evs])
        elif name == "Ign0":
            want = ref.r_mean(S, [-S.log(S.ite(ev[i], pr[i], 1 - pr[i]), 2) for i in valid])
        elif name == "Spherical":
            want = ref.r_mean(S, [S.div(S.ite(ev[i], pr[i], 1 - pr[i]), S.sqrt(pr[i] * pr[i] + (1 - pr[i]) * (1 - pr[i]))) for i in valid])
        elif name == "MarginalRatio":
            mp = ref.r_mean(S, [pr[i] for i in valid])
            want = S.ite(mp == 0, float("nan"), S.div(ref.r_mean(S, [S.ite(ev[i], 1.0, 0.0) for i in valid]), mp))
        else:
            if bt == "within=":
                want = ref.r_mean(S, [c3[i] - c1[i] for i in valid])
            else:
                want = ref.r_mean(S, [c1[i] for i in valid])      # the stored CDF value at the threshold
        S.prove("score=definition", S.same(got, want), twin=S.same(got, want + 1), detail=tag)
    return fn


def h_pit(N):
    def fn(S):
        metric = load.modules["verif.metric"]
        ax = load.modules["verif.axis"]
        D, raw = mk_data(S, N, pit=True)
        which = S.choose("metric", 4)
        valid = [x for x in raw["pit"] if not bool(S.isnan(x))]
        name = ["Pit", "PitHistDev", "PitHistSlope", "PitHistShape"][which]
        got = getattr(metric, name)().compute(D, 0, ax.No(), None)[0]
        S.observe(name, got)
        if not valid:
            S.prove("no-valid-case-is-not-a-number", S.not_(S.isfinite(got)), detail=name)
            return
        n = len(valid)
        nb = 10
        # histogram with 10 equal bins on [0,1], the last one closed
        counts = [S.count(S.and_(x >= EDGES[k], (x <= 1.0) if k == 9 else (x < EDGES[k + 1])) for x in valid) for k in range(nb)]
        freq = [S.div(c, n) for c in counts]
        if name == "Pit":
            want = ref.r_mean(S, valid)
        elif name == "PitHistDev":
            # deviation / expected deviation, both square roots: compared through the squares
            dev2 = S.div(S.sum((fq - 1.0 / nb) * (fq - 1.0 / nb) for fq in freq), nb)
            exp2 = S.div(1.0 - 1.0 / nb, n * nb)
            # (the histogram is concrete on each path, so both sides are computed from doubles)
            S.prove("pit-statistic=PitHistDev", S.and_(got >= 0, S.close(got * got * exp2, dev2)),
                    twin=S.close(got * got * exp2, dev2 + 1))
            return
        elif name == "PitHistSlope":
            centers = [(EDGES[k] + EDGES[k + 1]) / 2 for k in range(nb)]
            want = ref.r_mean(S, [S.div(freq[k + 1] - freq[k], centers[k + 1] - centers[k]) for k in range(nb - 1)])
        else:
            centers = [(EDGES[k] + EDGES[k + 1]) / 2 for k in range(nb)]
            d = [S.div(freq[k + 1] - freq[k], centers[k + 1] - centers[k]) for k in range(nb - 1)]
            c2 = [(centers[k] + centers[k + 1]) / 2 for k in range(nb - 1)]
            want = ref.r_mean(S, [S.div(d[k + 1] - d[k], c2[k + 1] - c2[k]) for k in range(nb - 2)])
        cmp = S.same if name == "Pit" else S.close
        S.prove("pit-statistic=%s" % name, cmp(got, want), twin=cmp(got, want + 1))
    return fn


def h_sequence(N):
    """A probabilistic score does not depend on which other scores were
    computed before it on the same dataset (the event probabilities handed out
    by get_p are not a licence to modify the dataset's cache)."""
    stored = [1.0, 3.0]
    firsts = ["Ign0", "Spherical", "Bs"]
    seconds = ["Bs", "MarginalRatio", "Ign0"]

    def fn(S):
        metric = load.modules["verif.metric"]
        util = load.modules["verif.util"]
        ax = load.modules["verif.axis"]
        data = load.modules["verif.data"]
        D, raw = mk_data(S, N, thresholds=stored, members=2, nan=False)
        inp = D._inputs[0]
        first = firsts[S.choose("first", len(firsts))]
        second = seconds[S.choose("second", len(seconds))]
        bt = ["below", "above", "within"][S.choose("bin", 3)]
        iv = util.get_intervals(bt, S.const(stored))[0]
        # fresh dataset over copies of the same arrays, built before anything is computed
        MI = common.input_class()
        fresh_in = MI("A.txt", inp.times, inp.leadtimes, inp.locations, obs=inp.obs.copy(), fcst=inp.fcst.copy(),
                      thresholds=inp.thresholds, threshold_scores=inp.threshold_scores.copy(), ensemble=inp.ensemble.copy())
        Dfresh = data.Data([fresh_in])
        getattr(metric, first)().compute(D, 0, ax.No(), iv)
        got = getattr(metric, second)().compute(D, 0, ax.No(), iv)[0]
        want = getattr(metric, second)().compute(Dfresh, 0, ax.No(), iv)[0]
        S.observe("second", got)
        S.prove("score-independent-of-earlier-scores", S.same(got, want), twin=S.same(got, want + 1),
                detail="%s after %s / %s" % (second, first, bt))
        S.prove("input-probabilities-unmodified", S.same_arrays(inp.threshold_scores, fresh_in.threshold_scores))
    return fn


def harnesses(tier):
    thorough = tier == "thorough"
    N = 3 if thorough else 2
    return [
        Harness("event_prob", h_event_prob(N, 3 if thorough else 2), "get_p: probability of the event from the CDF or the ensemble"),
        Harness("brier", h_brier(N), "Brier family on (probability, outcome) pairs"),
        Harness("quantile", h_quantile(N, 3), "stored / ensemble quantiles, pinball, coverage, spread"),
        Harness("scores", h_scores(N), "bs, ign0, spherical, marginal ratio, threshold mean through Data"),
        Harness("pit", h_pit(N), "PIT mean, deviation, slope, shape"),
        Harness("sequence", h_sequence(2), "two probabilistic scores in sequence on one dataset vs a fresh dataset"),
        Harness("threshold_layouts", shared.h_threshold_layouts(2, 1), "inputs storing different threshold columns: each reads its own column"),
        Harness("ensemble_probability", shared.h_ensemble_probability(2, 1, 2), "threshold probability from the valid ensemble members; none valid = missing"),
    ]
