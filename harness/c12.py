"""C12 -- text and CSV outputs report exactly the computed scores.

Kernel: Standard._get_x_y (incl. threshold rows / averaging and -acc),
Output.text, Output.csv, Data.get_axis_descriptions, on a real Data object.
Placement (which score lands in which row/column) is decided symbolically for
every path; the emitted characters are checked on one solver-chosen
representative per path (the '%g' conversion needs a concrete number: the
engine realises the scores with pairwise distinct finite values)."""
import contextlib
import io
import os
import sys
import tempfile

import numpy as np

from symx.explore import Harness
from symx import load
from harness import common, ref
from harness.c07 import event

BOUNDS = {
    "quick": {"dataset": "2 inputs, 2 times x 1 lead time x 2 locations, finite obs/fcst", "axes": "location, time, leadtime, no, threshold (2 symbolic thresholds), obs and fcst (3 symbolic edges, within=)",
              "variants": "csv/text x -acc x -leg x -f"},
    "thorough": {"dataset": "2 inputs, 2 x 2 x 2", "axes": "same + lat, elev, year", "variants": "same"},
}
ASSUMPTIONS = ["obs/fcst cells are finite reals (missing-value handling: C01/C04)",
               "the characters of a number are checked for one representative model per path (realisation), its placement for all",
               "times are concrete so that the date labels are computed by the real matplotlib"]
STUBS = ["print / open in verif.output are recorders under the engine; the replay captures stdout / writes a real temporary file"]


@contextlib.contextmanager
def capture(S, out_module, filename):
    """Collect what text()/csv() print or write."""
    store = {"text": None}
    if S.symbolic:
        lines = []

        def fake_print(*a, **k):
            lines.append(" ".join(str(x) for x in a))

        class W(object):
            def __init__(self):
                self.buf = []

            def write(self, s):
                self.buf.append(s)

            def close(self):
                store["file"] = "".join(self.buf)
        load.rebind_global(out_module, "print", fake_print)
        load.rebind_global(out_module, "open", lambda name, mode="r": W())
        try:
            yield store
        finally:
            store["text"] = "\n".join(lines) if lines else None
    else:
        buf = io.StringIO()
        old = sys.stdout
        sys.stdout = buf
        try:
            yield store
        finally:
            sys.stdout = old
            # verif.util.warning() also prints to stdout: keep the output proper
            kept = [l for l in buf.getvalue().split("\n") if "Warning:" not in l]
            store["text"] = "\n".join(kept).rstrip("\n") or None
            if filename is not None and os.path.exists(filename):
                with open(filename) as f:
                    store["file"] = f.read()


def h_output(T, L, P, thorough, only_axes=None, period_times=None):
    def fn(S):
        data = load.modules["verif.data"]
        metric = load.modules["verif.metric"]
        out = load.modules["verif.output"]
        ax = load.modules["verif.axis"]
        MI = common.input_class()
        S.allow_realize(True)
        times = [1704067200 + 86400 * i for i in range(T)]          # 2024-01-01, 2024-01-02
        if period_times is not None:
            times = list(period_times)
        lts = [0.0, 30.0][:L]
        ids, lats, lons, elevs = [11, 4], [60.5, 59.25], [10.0, 11.5], [100.0, 250.0]
        shape = (T, L, P)
        raw = []
        ins = []
        for nm in ("A", "B"):
            obs = S.array(nm + ".obs", shape, nan=False)
            fcst = S.array(nm + ".fcst", shape, nan=False)
            raw.append((obs, fcst))
            ins.append(MI("dir/%s.txt" % nm, common.int_array(S, times), S.vector(lts),
                          common.locations(ids[:P], lats[:P], lons[:P], elevs[:P]), obs=obs.copy(), fcst=fcst.copy()))
        legend = [None, ["first run", "second"]][S.choose("legend", 2)] if only_axes is None else None
        D = data.Data(ins, legend=legend)
        axes = ["location", "time", "leadtime", "no", "threshold", "location+thresholds"] + (["lat", "elev", "year"] if thorough else [])
        if only_axes is not None:
            axes = list(only_axes)
        axname = axes[S.choose("axis", len(axes))]
        fmt = ["csv", "text"][S.choose("format", 2)]
        acc = bool(S.choose("acc", 2))
        to_file = bool(S.choose("file", 2)) if only_axes is None else False
        cells = list(np.ndindex(*shape))
        avg_thresholds = None
        use_ratio = False
        use_hit = False
        if axname == "location+thresholds":
            # a threshold metric along a data axis: the mean over the intervals is reported
            axname = "location"
            # within (always defined), or the hit rate, which is undefined for a threshold no observation exceeds:
            # the mean over the thresholds is then undefined too (not the mean of the others)
            # (decided for one output variant only: every event count forks per cell and threshold)
            use_hit = (not acc and not to_file and fmt == "csv" and legend is None) and bool(S.choose("threshold-metric", 2))
            m = metric.Hit() if use_hit else metric.Within()
            pl = out.Standard(m)
            t1, t2 = S.real("r1", lo=0, hi=50), S.real("r2", lo=0, hi=50)
            pl.thresholds = S.vector([t1, t2])
            pl.axis = ax.Location()
            avg_thresholds = [t1, t2]
            slices = [("loc", p) for p in sorted(range(P), key=lambda p: ids[p])]
        elif axname in ("obs", "fcst"):
            # -x obs / -x fcst: one row per interval of the observed / forecasted value, each with its own score
            m = metric.Mae()
            pl = out.Standard(m)
            ts = [S.real("r%d" % i, lo=0, hi=50) for i in range(3)]
            S.assume(S.and_(ts[0] < ts[1], ts[1] < ts[2]))
            pl.thresholds = S.vector(ts)
            pl.bin_type = "within="
            pl.axis = ax.get(axname)
            slices = [("bin", (ts[0], ts[1])), ("bin", (ts[1], ts[2]))]
        elif axname == "threshold":
            m = metric.Within()
            pl = out.Standard(m)
            t1, t2 = S.real("r1", lo=0, hi=50), S.real("r2", lo=0, hi=50)
            S.assume(t1 != t2)
            pl.thresholds = S.vector([t1, t2])
            pl.axis = ax.Threshold()
            slices = [("thr", t1), ("thr", t2)]
        else:
            # mae, or ratio = mean(fcst)/mean(obs), which is NaN for one input only when that
            # input's mean observation is zero (the case -acc must count as 0 for that input alone)
            use_ratio = bool(S.choose("metric", 2))
            m = metric.Ratio() if use_ratio else metric.Mae()
            pl = out.Standard(m)
            pl.axis = ax.get(axname)
            if axname in ("location", "lat", "elev"):
                # rows follow the dataset's location order: ascending id
                slices = [("loc", p) for p in sorted(range(P), key=lambda p: ids[p])]
            elif axname in ("month", "year", "week"):
                # one row per period; a period may hold several init times
                import datetime
                fmt_ = ax.get(axname).fmt
                groups = {}
                for i_, t_ in enumerate(times):
                    groups.setdefault(datetime.datetime.fromtimestamp(t_, datetime.timezone.utc).strftime(fmt_), []).append(i_)
                slices = [("times", (lab, idxs)) for lab, idxs in sorted(groups.items(), key=lambda kv: kv[1][0])]
            elif axname == "time":
                slices = [("time", t) for t in range(T)]
            elif axname == "leadtime":
                slices = [("lead", l) for l in range(L)]
            else:
                slices = [("all", None)]
        pl.show_acc = acc
        fname = None
        if to_file:
            fname = "/in-memory/out.txt" if S.symbolic else tempfile.mktemp(suffix=".txt", prefix="c12-")
            pl.filename = fname

        def score(f, sl):
            kind, k = sl
            o, fc = raw[f]
            if kind == "bin":
                v = o if axname == "obs" else fc
                sel = [c for c in cells if bool(event(S, v[c], "within=", k[0], k[1]))]
                return ref.r_mean(S, [S.abs(o[c] - fc[c]) for c in sel]) if sel else float("nan")
            if kind == "thr":
                d = [S.abs(o[c] - fc[c]) for c in cells]
                return S.div(S.count(x < k for x in d) * 100.0, len(d))     # within: default bin type 'below'
            sel = [c for c in cells if kind == "all" or (kind == "loc" and c[2] == k) or (kind == "time" and c[0] == k)
                   or (kind == "lead" and c[1] == k) or (kind == "times" and c[0] in k[1])]
            if avg_thresholds is not None and use_hit:
                per = []
                for t in avg_thresholds:
                    n_ev = S.count(o[c] > t for c in sel)
                    n_hit = S.count(S.and_(o[c] > t, fc[c] > t) for c in sel)
                    per.append(S.ite(n_ev == 0, float("nan"), S.div(n_hit, n_ev)))
                return S.div(per[0] + per[1], 2.0)
            if avg_thresholds is not None:
                d = [S.abs(o[c] - fc[c]) for c in sel]
                per = [S.div(S.count(x < t for x in d) * 100.0, len(d)) for t in avg_thresholds]
                return S.div(per[0] + per[1], 2.0)
            if use_ratio:
                den = ref.r_mean(S, [o[c] for c in sel])
                return S.ite(den == 0, float("nan"), S.div(ref.r_mean(S, [fc[c] for c in sel]), den))
            return ref.r_mean(S, [S.abs(o[c] - fc[c]) for c in sel])
        want = [[score(f, sl) for f in range(2)] for sl in slices]
        if acc:
            run = [0.0, 0.0]
            acc_want = []
            for row in want:
                run = [run[f] + S.ite(S.isnan(row[f]), 0.0, row[f]) for f in range(2)]
                acc_want.append(list(run))
            want = acc_want
        # ---- placement, for every input of the path (symbolic)
        x, y, xname, ynames, descs = pl._get_x_y(D, pl.axis)
        S.prove("one-row-per-slice", len(x) == len(slices) and tuple(y.shape) == (len(slices), 2), detail=axname)
        tag = "%s%s%s%s" % (axname, "/acc" if acc else "", ("/mean-over-thresholds" + ("/hit" if use_hit else "")) if avg_thresholds else "", "/ratio" if use_ratio else "")
        for i in range(len(slices)):
            for f in range(2):
                S.prove("score-in-its-row-and-column", S.same(y[i, f], want[i][f]), twin=S.same(y[i, f], want[i][f] + 1), detail=tag)
        S.prove("column-labels-are-legend-or-file-names-in-order",
                list(ynames) == (legend if legend is not None else ["A.txt", "B.txt"]), detail=tag)
        # ---- emitted text: one representative per path with distinct scores
        flat = [want[i][f] for i in range(len(slices)) for f in range(2)]
        if use_ratio and not acc:
            return      # NaN scores print as 'nan'; the character check below is for numbers
        S.assume(S.all(S.isfinite(v) for v in flat))
        if S.symbolic and avg_thresholds is None:
            S.assume(S.all(S.not_(S.same(a, b)) for k, a in enumerate(flat) for b in flat[k + 1:]))
        with capture(S, out, fname) as got:
            (pl.csv if fmt == "csv" else pl.text)(D)
        text = got.get("file") if to_file else got["text"]
        S.prove("written-to-the-file-instead-of-the-screen" if to_file else "printed-to-the-screen",
                text is not None and (got["text"] is None if to_file else got.get("file") is None), detail=fmt)
        if to_file and not S.symbolic and os.path.exists(fname):
            os.unlink(fname)
        if text is None:
            return
        lines = text.rstrip("\n").split("\n")
        sep = "," if fmt == "csv" else "|"
        header = [w.strip() for w in lines[0].split(sep) if w.strip() != ""]
        labels = legend if legend is not None else ["A.txt", "B.txt"]
        desc_names = {"location": ["id", "lat", "lon", "elev"], "lat": ["id", "lat", "lon", "elev"], "elev": ["id", "lat", "lon", "elev"],
                      "time": ["Time"], "year": ["Year"], "month": ["Month"], "week": ["Week"], "leadtime": ["Leadtime"], "no": ["No"], "threshold": ["Threshold"],
                      "obs": ["Observed"], "fcst": ["Forecasted"]}[axname]
        S.prove("header=descriptors+one-column-per-input", header == desc_names + labels, detail="%s/%s" % (fmt, axname))
        S.prove("one-line-per-slice", len(lines) == 1 + len(slices), detail="%s/%s" % (fmt, axname))
        if len(lines) != 1 + len(slices):
            return
        digits = 6 if fmt == "csv" else 4
        for i, sl in enumerate(slices):
            fields = [w.strip() for w in lines[1 + i].split(sep)]
            if fmt == "text":
                fields = fields[:-1] if fields and fields[-1] == "" else fields
            nd = len(desc_names)
            S.prove("fields-per-line", len(fields) == nd + 2, detail="%s/%s" % (fmt, axname))
            if len(fields) != nd + 2:
                continue
            for f in range(2):
                shown = float(fields[nd + f])
                S.prove("number-is-the-score-to-%d-significant-digits" % digits,
                        S.close(shown, want[i][f], tol=0.51 * 10 ** (1 - digits)), detail="%s/%s" % (fmt, tag))
            kind, k = sl
            if kind == "loc":
                expect = [ids[k], lats[k], lons[k], elevs[k]]
                S.prove("row-identifies-its-location", [float(v) for v in fields[:4]] == [float(v) for v in expect], detail=fmt)
            elif kind == "time":
                import datetime
                stamp = datetime.datetime.fromtimestamp(times[k], datetime.timezone.utc).strftime("%Y-%m-%d %H:%M:%S")
                S.prove("row-identifies-its-date", fields[0] == stamp, detail=fmt)
            elif kind == "lead":
                S.prove("row-identifies-its-leadtime", float(fields[0]) == lts[k], detail=fmt)
            elif kind == "times":
                S.prove("row-identifies-its-period", fields[0] == k[0], detail="%s/%s: %r" % (fmt, axname, fields[0]))
            elif kind == "bin":
                S.prove("row-identifies-its-interval-by-the-lower-edge", S.close(float(fields[0]), k[0], tol=0.51 * 10 ** (1 - 6)), detail=fmt)
            elif kind == "thr":
                S.prove("row-identifies-its-threshold", S.close(float(fields[0]), k, tol=0.51 * 10 ** (1 - 6)), detail=fmt)
    return fn


def harnesses(tier):
    thorough = tier == "thorough"
    return [Harness("text_csv", h_output(2, 2 if thorough else 1, 2, thorough), "Standard._get_x_y + text()/csv() on a real dataset",
                    query_timeout_ms=20000),
            Harness("text_csv.periods", h_output(3, 1, 1, thorough, only_axes=("month", "week", "year"),
                                                 period_times=(1704067200, 1704067200 + 86400, 1704067200 + 40 * 86400)),
                    "-x month / week / year with two init times in the first period and one in the second", query_timeout_ms=20000),
            Harness("text_csv.bins", h_output(2, 1, 2 if thorough else 1, thorough, only_axes=("obs", "fcst")),
                    "-x obs / -x fcst: one row per interval, each with its own score", query_timeout_ms=20000)]
