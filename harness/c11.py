"""C11 -- slicing along -x partitions the cases using correct calendar buckets.

A  buckets:     every compute_from_times / compute_from_leadtimes in verif/axis.py
                on one symbolic instant inside a window of days.
B  partition:   Data + get_scores/_apply_axis/get_axis_values for every axis on a
                dataset with symbolic initialisation times around a year end.
C  conversions: date <-> unixtime <-> datenum round trips for a symbolic date.
Oracle: UTC calendar facts stated from the definition (start of unit <= t <
start of next unit; Monday-based weeks; leap-year day-of-year convention)."""
import calendar as real_calendar
import datetime as real_datetime

import numpy as np

from symx.explore import Harness
from symx import load
from symx import calmodel
from harness import common

QUICK_YEARS = [1970, 1972, 1999, 2000, 2001, 2024, 2037, 2038, 2096, 2099, 2100]
BOUNDS = {
    "quick": {"buckets": "one symbolic instant (any second) in the windows Dec 29 - Jan 3 and Feb 27 - Mar 2 around/in the years %s" % QUICK_YEARS,
              "partition": "2 symbolic init times in [Dec 30 2023, Jan 3 2024) x lead times (0, 30) x 2 locations",
              "conversions": "every date of the same windows"},
    "thorough": {"buckets": "one symbolic instant anywhere in each year 1970-2100 (day concretised by forking: 47 847 days)",
                 "partition": "3 symbolic init times in [Dec 30 2023, Jan 3 2024) and in [Feb 27 2024, Mar 2 2024)",
                 "conversions": "every date 1900-2100 (dates before 1970 for the datenum route)"},
}
ASSUMPTIONS = ["datetime / calendar / matplotlib.dates are library models: 86400 s per day, proleptic Gregorian dates from the real datetime for a concrete day, date2num = days since 1970-01-01",
               "initialisation times are integers (seconds)"]
STUBS = []

EPOCH = real_datetime.date(1970, 1, 1)


def day_no(date):
    return (date - EPOCH).days


def windows(tier):
    ws = []
    if tier == "quick":
        for y in QUICK_YEARS:
            ws.append((day_no(real_datetime.date(y - 1, 12, 29)) if y > 1970 else 0, day_no(real_datetime.date(y, 1, 3))))
            ws.append((day_no(real_datetime.date(y, 2, 27)), day_no(real_datetime.date(y, 3, 2))))
    else:
        for y in range(1970, 2101):
            ws.append((day_no(real_datetime.date(y, 1, 1)), day_no(real_datetime.date(y, 12, 31))))
    return ws


LEAP_CUM = [0, 31, 60, 91, 121, 152, 182, 213, 244, 274, 305, 335]   # days before month m in a leap year


def h_buckets(tier):
    ws = windows(tier)

    def fn(S):
        ax = load.modules["verif.axis"]
        w = S.choose("window", len(ws))
        d0, d1 = ws[w]
        t = S.integer("t", lo=d0 * 86400, hi=(d1 + 1) * 86400 - 1)
        times = common.int_array(S, [t])
        D = calmodel.concretise_int(t // 86400, "oracle day") if S.symbolic else int(t) // 86400
        date = EPOCH + real_datetime.timedelta(days=D)
        sod = t - 86400 * D

        def start(dt):
            return real_calendar.timegm(dt.timetuple())
        nxt_month = real_datetime.date(date.year + (date.month == 12), date.month % 12 + 1, 1)
        monday = date - real_datetime.timedelta(days=(D + 3) % 7)       # 1970-01-01 was a Thursday
        expect = {
            "Year": (start(real_datetime.date(date.year, 1, 1)), start(real_datetime.date(date.year + 1, 1, 1))),
            "Month": (start(real_datetime.date(date.year, date.month, 1)), start(nxt_month)),
            "Week": (start(monday), start(monday) + 7 * 86400),
            "Day": (D * 86400, (D + 1) * 86400),
        }
        for name, (b0, b1) in expect.items():
            got = getattr(ax, name)().compute_from_times(times)[0]
            S.observe(name, got)
            S.prove("bucket=%s" % name, got == b0, twin=got == b0 + 86400)
            S.prove("bucket-contains-instant=%s" % name, S.and_(b0 <= t, t < b1))
        S.prove("week-starts-on-monday", monday.weekday() == 0 and expect["Week"][0] % 86400 == 0)
        tod = ax.Timeofday().compute_from_times(times)[0]
        S.observe("Timeofday", tod)
        S.prove("time-of-day-in-hours", S.same(tod, S.div(sod, 3600.0)), twin=S.same(tod, S.div(sod, 3600.0) + 1))
        S.prove("time-of-day-range", S.and_(tod >= 0, tod < 24))
        doy = ax.Dayofyear().compute_from_times(times)[0]
        S.observe("Dayofyear", doy)
        want_doy = LEAP_CUM[date.month - 1] + date.day
        S.prove("day-of-year(leap-year convention)", doy == want_doy, twin=doy == want_doy + 1)
        dom = ax.Dayofmonth().compute_from_times(times)[0]
        moy = ax.Monthofyear().compute_from_times(times)[0]
        S.observe("Dayofmonth", dom)
        S.observe("Monthofyear", moy)
        S.prove("day-of-month", dom == date.day, twin=dom == date.day + 1)
        S.prove("month-of-year", moy == date.month, twin=moy == date.month + 1)
    return fn


def h_leadtimeday():
    def fn(S):
        ax = load.modules["verif.axis"]
        lt = S.real("leadtime", lo=0, hi=400)
        got = ax.Leadtimeday().compute_from_leadtimes(S.vector([lt]))[0]
        same = ax.Leadtime().compute_from_leadtimes(S.vector([lt]))[0]
        S.observe("day", got)
        S.prove("lead-time-day-is-whole-24h-periods", S.and_(got * 24 <= lt, lt < (got + 1) * 24),
                twin=S.and_((got + 1) * 24 <= lt, lt < (got + 2) * 24))
        S.prove("lead-time-axis-is-identity", S.same(same, lt))
    return fn


def axis_objects():
    ax = load.modules["verif.axis"]
    names = ["Time", "Leadtime", "Leadtimeday", "Location", "Lat", "Lon", "Elev", "No", "Year", "Month", "Week",
             "Timeofday", "Dayofyear", "Day", "Dayofmonth", "Monthofyear"]
    return [getattr(ax, n)() for n in names]


def h_partition(ntimes, win, only=None):
    def fn(S):
        data = load.modules["verif.data"]
        metric = load.modules["verif.metric"]
        f = load.modules["verif.field"]
        ax = load.modules["verif.axis"]
        MI = common.input_class()
        d0, d1 = win
        ts = [S.integer("t%d" % i, lo=d0 * 86400, hi=(d1 + 1) * 86400 - 1) for i in range(ntimes)]
        for i in range(ntimes - 1):
            S.assume(ts[i] < ts[i + 1])
        lts = [0.0, 30.0]
        P = 2
        shape = (ntimes, 2, P)
        # missing values only in one cell per init time (the NaN patterns are C01/C04's subject)
        obs = S.array("obs", shape, nan=False)
        fcst = S.array("fcst", shape, nan=False)
        for i in range(ntimes):
            fcst[i, 0, 0] = S.real("fcst?[%d]" % i, nan=True)
        axes = [x for x in axis_objects() if only is None or x.name() in only]
        a = S.choose("axis", len(axes))
        axis = axes[a]
        name = axis.name()
        coords = {"Location": [5, 9], "Lat": [60.0, 61.5], "Lon": [10.0, 11.0], "Elev": [100.0, 250.0]}
        if name in ("Lat", "Lon", "Elev") and S.choose("stations-share-the-coordinate", 2):
            # two stations at the same latitude / longitude / elevation are still two slices
            coords = {"Location": [5, 9], "Lat": [60.0, 60.0], "Lon": [10.0, 10.0], "Elev": [100.0, 100.0]}
        inp = MI("A.txt", common.int_array(S, ts), S.vector(lts),
                 common.locations([5, 9], lats=coords["Lat"], lons=coords["Lon"], elevs=coords["Elev"]), obs=obs, fcst=fcst)
        D = data.Data([inp])
        vals = D.get_axis_values(axis)
        n = D.get_axis_size(axis)
        S.prove("axis-size-matches-values", n == len(vals))
        pooled = D.get_scores([f.Obs(), f.Fcst()], 0, ax.No(), None)
        pooled_valid = [] if bool(S.isnan(S.elements(pooled[0])[0])) else list(zip(S.elements(pooled[0]), S.elements(pooled[1])))
        total = 0
        weighted = 0.0
        seen = []
        for i in range(n):
            o, fc = D.get_scores([f.Obs(), f.Fcst()], 0, axis, i)
            oe, fe = S.elements(o), S.elements(fc)
            if bool(S.isnan(oe[0])):
                continue
            total += len(oe)
            seen += list(zip(oe, fe))
            weighted = weighted + S.sum(S.abs(x - y) for x, y in zip(oe, fe))
        S.observe("total", total)
        S.prove("slice-counts-add-up-to-pooled-count=%s" % name, total == len(pooled_valid))
        if pooled_valid:
            # same multiset: every pooled case appears in exactly one slice.  The stored values are
            # independent symbols, so a case is identified by its (obs, fcst) terms.
            ids_pooled = sorted(id(x) for x, _ in pooled_valid)
            ids_seen = sorted(id(x) for x, _ in seen) if S.symbolic else None
            if S.symbolic:
                S.prove("each-valid-case-in-exactly-one-slice=%s" % name, ids_pooled == ids_seen)
            mae = metric.Mae().compute(D, 0, ax.No(), None)[0]
            S.prove("pooled-mae-is-count-weighted-mean=%s" % name, S.same(mae * len(pooled_valid), weighted),
                    twin=S.same(mae * len(pooled_valid), weighted + 1))
        if axis.is_location_like:
            want = coords[name]
            S.prove("one-slice-per-location-labelled=%s" % name, [float(v) for v in vals] == [float(v) for v in want])
    return fn


def valid_date(S, d):
    y, m, dd = d // 10000, (d // 100) % 100, d % 100
    leap = S.and_(y % 4 == 0, S.or_(y % 100 != 0, y % 400 == 0))
    mlen = S.ite(S.or_(m == 4, m == 6, m == 9, m == 11), 30, S.ite(m == 2, S.ite(leap, 29, 28), 31))
    return S.and_(m >= 1, m <= 12, dd >= 1, dd <= mlen)


def h_conversions(tier):
    if tier == "quick":
        spans = []
        for y in QUICK_YEARS:
            spans += [((y - 1) * 10000 + 1229 if y > 1970 else 19700101, y * 10000 + 103), (y * 10000 + 227, y * 10000 + 302)]
        spans += [(19000227, 19000302), (19691229, 19700103)]
    else:
        spans = [(y * 10000 + 101, y * 10000 + 1231) for y in range(1900, 2101)]

    def fn(S):
        util = load.modules["verif.util"]
        w = S.choose("span", len(spans))
        lo, hi = spans[w]
        d = S.integer("date", lo=lo, hi=hi)
        S.assume(valid_date(S, d))
        ut = util.date_to_unixtime(d)
        S.observe("unixtime", ut)
        back = util.unixtime_to_date(ut)
        S.prove("unixtime_to_date(date_to_unixtime(d))=d", back == d, twin=back == d + 1)
        S.prove("date_to_unixtime-is-midnight", ut % 86400 == 0)
        if bool(d >= 19700101):
            # any second of that day maps back to the same date
            s = S.integer("second", lo=0, hi=86399)
            S.prove("unixtime_to_date(any second of the day)=d", util.unixtime_to_date(ut + s) == d)
        # date arithmetic: adding k days gives the k-th following calendar day
        k = S.choose("days", 3) + 1
        nxt = util.get_date(d, k)
        dconc = calmodel.concretise_int(d, "date") if S.symbolic else int(d)
        base = real_datetime.date(dconc // 10000, (dconc // 100) % 100, dconc % 100) + real_datetime.timedelta(days=k)
        S.prove("get_date-steps-by-calendar-days", nxt == base.year * 10000 + base.month * 100 + base.day, detail="+%d" % k)
        dn = util.date_to_datenum(d)
        S.observe("datenum", dn)
        S.prove("datenum_to_date(date_to_datenum(d))=d", util.datenum_to_date(dn) == d, twin=util.datenum_to_date(dn) == d + 1)
        if bool(d >= 19700101):
            S.prove("unixtime_to_datenum-consistent", S.same(util.unixtime_to_datenum(ut), dn))
            S.prove("datenum-is-days-since-epoch", S.same(dn * 86400.0, ut))
    return fn


def harnesses(tier):
    thorough = tier == "thorough"
    w_year_end = (day_no(real_datetime.date(2023, 12, 30)), day_no(real_datetime.date(2024, 1, 2)))
    hs = [
        Harness("buckets", h_buckets(tier), "all time-derived axes on one symbolic instant"),
        Harness("leadtimeday", h_leadtimeday(), "lead-time day = whole 24 h periods"),
        Harness("partition", h_partition(3 if thorough else 2, w_year_end), "every axis partitions the valid cases"),
        Harness("conversions", h_conversions(tier), "date / unixtime / datenum round trips"),
    ]
    if not thorough:
        # three init times: the cases of one bucket of a cyclic axis need not be contiguous in time
        hs.append(Harness("partition.cyclic", h_partition(3, w_year_end, only=("Timeofday", "Dayofmonth", "Dayofyear", "Monthofyear", "Week")),
                          "cyclic axes with three init times (non-contiguous buckets)"))
    if thorough:
        w_leap = (day_no(real_datetime.date(2024, 2, 27)), day_no(real_datetime.date(2024, 3, 1)))
        hs.append(Harness("partition.leapday", h_partition(2, w_leap), "partition around a leap day"))
    return hs
