#!/bin/bash
# dev helper: tools/seedround.sh <prefix> <ID>...   e.g. tools/seedround.sh r6 C01 C02
#   step 1 (scratch worktree, /repo untouched): demo on clean / patched tree, test suite with the patch, ./check via VERIF_REPO
#   step 2 (against /repo itself): git apply, ./check <ID> quick, git checkout -- .
pre=$1; shift
cd "$(dirname "$0")/.."
mkdir -p /tmp/wt/conf
for id in "$@"; do
  echo "######## $id"
  bash tools/seedcheck.sh $id /tmp/wt/${pre}_$id.out 2>&1
  if [ -n "$(git -C /repo status --porcelain)" ]; then echo "/repo is not clean"; exit 9; fi
  git -C /repo apply /tmp/wt/${pre}_$id.out/patch.diff || { echo "$id: patch does not apply to /repo"; continue; }
  ./check $id quick > /tmp/wt/conf/$id.log 2>&1; rc=$?
  git -C /repo checkout -- .
  echo "== against /repo: rc=$rc $(grep -c '^VIOLATION' /tmp/wt/conf/$id.log) violation lines"
  grep -E "signature|HARNESS-ERROR" /tmp/wt/conf/$id.log | head -3 | cut -c1-220
done
