#!/bin/bash
# dev helper: run every check of a tier sequentially, print the verdict and per-harness lines
tier=${1:-quick}
cd "$(dirname "$0")/.."
for i in $(seq -w 1 20); do
  s=$(date +%s)
  out=$(./check C$i $tier 2>&1); rc=$?
  e=$(date +%s)
  echo "C$i rc=$rc $((e-s))s"
  echo "$out" | grep -E '^  [a-z]|^OK|^VIOLATION|^HARNESS-ERROR|^MODEL-MISMATCH' | cut -c1-330 | head -30
done
