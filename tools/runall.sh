#!/bin/bash
# dev helper: run every check of a tier sequentially, print the verdict lines
tier=${1:-quick}
cd "$(dirname "$0")/.."
for i in $(seq -w 1 20); do
  s=$(date +%s)
  out=$(./check C$i $tier 2>&1); rc=$?
  e=$(date +%s)
  echo "C$i rc=$rc $((e-s))s $(echo "$out" | grep -E '^OK|^VIOLATION|^HARNESS-ERROR|^MODEL-MISMATCH|KNOWN-FINDING' | cut -c1-160 | head -4 | tr '\n' '|')"
done
