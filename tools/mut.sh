#!/bin/bash
# dev helper: tools/mut.sh <PROP> <file> <sed-expr>   -- apply a mutant to /repo, run the quick check, revert
prop=$1; file=$2; expr=$3
cd /repo && git diff --quiet || { echo "repo dirty"; exit 9; }
sed -i "$expr" "$file"
git diff --stat | head -2
cd /verif && ./check $prop quick 2>&1 | grep -E "^VIOLATION|signature|^OK|HARNESS-ERROR" | cut -c1-200 | head -8
git -C /repo checkout -- .
