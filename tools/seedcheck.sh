#!/bin/bash
# dev helper: tools/seedcheck.sh <ID> [outdir]  -- confirm a seeded change produced by a sub-agent
#  1. demo passes on a clean checkout of /repo HEAD and fails with the patch
#  2. the repository's test suite passes as before (182)
#  3. the property's quick check reports a VIOLATION on the patched tree (via VERIF_REPO, /repo untouched)
id=$1; out=${2:-/tmp/wt/$id.out}
scratch=/tmp/wt/verify_$id
rm -rf $scratch; git -C /repo worktree prune; git -C /repo worktree add -q --detach $scratch HEAD || exit 9
echo "== demo on clean tree"; (cd $scratch && PYTHONPATH=$scratch timeout 600 /venv/bin/python -W ignore $out/demo.py >/tmp/wt/demo_clean_$id.log 2>&1; echo "exit=$?")
(cd $scratch && git apply $out/patch.diff) || { echo "patch does not apply"; git -C /repo worktree remove --force $scratch; exit 8; }
echo "== demo on patched tree"; (cd $scratch && PYTHONPATH=$scratch timeout 600 /venv/bin/python -W ignore $out/demo.py >/tmp/wt/demo_patched_$id.log 2>&1; echo "exit=$?"; tail -3 /tmp/wt/demo_patched_$id.log)
echo "== test suite on patched tree"; (cd $scratch && PYTHONPATH=$scratch /venv/bin/python -m pytest -q -p no:cacheprovider --timeout=900 -W ignore verif/tests 2>&1 | grep -E "^FAILED|passed|failed" | cut -c1-120)
echo "== ./check $id quick on patched tree"
(cd /verif && VERIF_REPO=$scratch ./check $id quick 2>&1 | grep -E "^VIOLATION|signature|^OK|HARNESS-ERROR|MODEL-MISMATCH" | cut -c1-220 | head -8)
git -C /repo worktree remove --force $scratch
