#!/usr/bin/env python3
"""Regenerates MANIFEST.json from the table below (development helper)."""
import json, os
HERE = os.path.dirname(os.path.dirname(os.path.abspath(__file__)))

TECH = "bounded symbolic execution of the real Python (own concolic engine symx over real NumPy object arrays) + z3 validity query per path; counterexamples replayed on the unmodified code"

CLAIMED = {
 "C07": dict(
  text="Bounded model checking of the real code: Interval.within (scalar and array), util.apply_threshold, apply_threshold_prob and get_intervals are executed on symbolic values/thresholds (finite, NaN, +-inf) for all 8 bin types; on every feasible path z3 proves membership == documented inequality, NaN in no event, mutual agreement, the within= partition and above = not below=. All values within the bound (arrays <= 2/3, <= 2/3 thresholds) are covered by the solver, not sampled.",
  note="Trusted: symx value model (extended reals, no rounding), NumPy shape/indexing executed natively, the validated library models listed in the evidence. Outside: Hist/Freq counting loops behind pyplot, arrays above the bound.",
  ref="3 C07"),
 "C06": dict(
  text="Bounded model checking of the real code: all 25 Contingency.compute_from_abcd on symbolic integer tables (a,b,c,d in [0,6] quick / [0,40] thorough) against textbook formulas with undefined -> NaN, never +-inf; _compute_abcd/compute_from_obs_fcst on 2-3 symbolic (obs,fcst) pairs with NaN, symbolic thresholds and all 8 bin types against event counts, with the obs<->fcst exchange and event-complement relations. Every feasible path is decided by z3 for all values.",
  note="Trusted: symx value model; log as uninterpreted strictly monotone function (formulas compared modulo the product rule). Outside: tables above the bound, the resampling variant (np.random).",
  ref="3 C06"),
 "C05": dict(
  text="Bounded model checking of the real code: every ObsFcstBased metric (7 with all 18 aggregator choices, 13 without), Within, Conditional, XConditional, Count on 0..2/3 symbolic pairs (finite or NaN); per path z3 proves result == literature definition on the valid pairs, undefined -> non-finite, perfect forecast -> perfect_score, nothing better than perfect_score. rankcorr/kendallcorr: guards and argument flow only (SciPy is a stub).",
  note="Trusted: symx value model and validated NumPy models (mean/std/percentile/sort/corrcoef); exp/log uninterpreted. Non-linear metrics are bounded one pair lower. Outside: IEEE rounding, vectors above the bound, SciPy rank statistics.",
  ref="3 C05"),
}

PENDING = {}

def main():
    ids = ["C%02d" % i for i in range(1, 21)]
    checks = []
    for pid in ids:
        if pid in CLAIMED:
            c = CLAIMED[pid]
            checks.append({
                "property_id": pid,
                "quick_cmd": "./check %s quick" % pid,
                "thorough_cmd": "./check %s thorough" % pid,
                "evidence_file": "evidence/%s.json" % pid,
                "replay_cmd_template": "./check --replay {path}",
                "engine": "symx",
                "level_claimed": {"category": "model_checking", "text": c["text"], "design_ref": "DESIGN.md section " + c["ref"]},
                "level_note": c["note"],
                "technique": TECH,
            })
    na = []
    for pid in ids:
        if pid not in CLAIMED:
            na.append({"property_id": pid, "reason": PENDING.get(pid, "solver-based harness not built yet in this round (design in DESIGN.md section 3); no claim is made")})
    m = {
        "version": 1,
        "setup_cmd": "./check --setup",
        "hooks": {"guard": "WFRT_VERIF_VERIF", "enable": "none needed: the engine rebinds module globals of the loaded verif modules at run time; no source hook exists in /repo",
                  "baseline_off_cmd": "cd /repo && /venv/bin/python -m pytest -ra -q -p no:cacheprovider --timeout=900 --continue-on-collection-errors",
                  "source_commits": [], "add_only": True},
        "engines": [{"name": "symx", "path": "symx/", "serves_properties": sorted(CLAIMED),
                     "kind_free_text": "concolic / bounded symbolic execution of the real verif Python code over z3 (path exploration by re-execution, 16 worker processes), with witness replay of every path on the unmodified code"}],
        "checks": checks,
        "not_applicable": na,
        "notes": "Exit codes: 0 held (KNOWN-FINDING lines allowed), 1 VIOLATION, 2 harness error (never with a VIOLATION line). known_findings.json is read-only at run time.",
    }
    with open(os.path.join(HERE, "MANIFEST.json"), "w") as f:
        json.dump(m, f, indent=1)
        f.write("\n")

if __name__ == "__main__":
    main()
