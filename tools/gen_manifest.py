#!/usr/bin/env python3
"""Regenerates MANIFEST.json from the table below (development helper)."""
import json, os
HERE = os.path.dirname(os.path.dirname(os.path.abspath(__file__)))

TECH = "bounded symbolic execution of the real Python (own concolic engine symx over real NumPy object arrays) + z3 validity query per path; counterexamples replayed on the unmodified code"

CLAIMED = {
 "C07": dict(
  text="Bounded model checking of the real code: Interval.within (scalar and array), util.apply_threshold, apply_threshold_prob and get_intervals are executed on symbolic values/thresholds (finite, NaN, +-inf) for all 8 bin types; on every feasible path z3 proves membership == documented inequality, NaN in no event, mutual agreement, the within= partition and above = not below=. All values within the bound (arrays <= 2/3, <= 2/3 thresholds) are covered by the solver, not sampled.",
  note="Trusted: symx value model (extended reals, no rounding), NumPy shape/indexing executed natively, the validated library models listed in the evidence. Outside: Hist/Freq counting loops behind pyplot, arrays above the bound.",
  ref="3 C07"),
 "C06": dict(
  text="Bounded model checking of the real code: all 25 Contingency.compute_from_abcd on symbolic integer tables (a,b,c,d in [0,6] quick / [0,40] thorough) against textbook formulas with undefined -> NaN, never +-inf; _compute_abcd/compute_from_obs_fcst on 2-3 symbolic (obs,fcst) pairs with NaN, symbolic thresholds and all 8 bin types against event counts, with the obs<->fcst exchange and event-complement relations. Every feasible path is decided by z3 for all values.",
  note="Trusted: symx value model; log as uninterpreted strictly monotone function (formulas compared modulo the product rule). Outside: tables above the bound, the resampling variant (np.random).",
  ref="3 C06"),
 "C05": dict(
  text="Bounded model checking of the real code: every ObsFcstBased metric (7 with all 18 aggregator choices, 13 without), Within, Conditional, XConditional, Count on 0..2/3 symbolic pairs (finite or NaN); per path z3 proves result == literature definition on the valid pairs, undefined -> non-finite, perfect forecast -> perfect_score, nothing better than perfect_score. rankcorr/kendallcorr against Spearman's rho / Kendall's tau-b (SciPy's two functions are validated library models); -x obs / -x fcst conditioning and obs/fcst statistics through a real Data.",
  note="Trusted: symx value model and validated NumPy models (mean/std/percentile/sort/corrcoef); exp/log uninterpreted. Non-linear metrics are bounded one pair lower. Outside: IEEE rounding, vectors above the bound, tie order of np.argsort (unspecified in NumPy: such paths are inconclusive).",
  ref="3 C05"),
 "C01": dict(
  text="Bounded model checking of the real Data.__init__/get_scores/_get_score/_apply_axis: 2 (thorough 3) in-memory inputs (+ variants: an input without observations, a climatology, an input with extra/reordered coverage) whose every obs/fcst/other cell is a symbolic real-or-NaN; for 5 field sets x 9-11 axis slices z3 proves on every feasible path that each input returns exactly the cases where every input has every requested quantity, in storage order with the stored values, that an obs-less input gets the shared obs, and that another input's forecast values never matter. A shared harness adds a quantity derived from ensemble members: the probability is the fraction of the valid members, and a case where an input has no valid member is dropped for every input. Further variants: the last input stores the same coordinates in the opposite order; an obs-less input with differing coverage or order.",
  note="Trusted: symx value/array model, validated NumPy models. Inputs are in-memory Input objects (readers: C09/C10). Outside: more inputs/cells than the bound; +-inf literals (C04).",
  ref="3 C01"),
 "C02": dict(
  text="Bounded model checking of Data._get_common_indices and the index selection in _get_score with *symbolic coordinates*: location ids, lead times (incl. NaN) and times of two inputs are arbitrary symbolic values in any order with duplicates (2+2, 2+1; thorough 3+3, 3+2); per path z3 proves the verified coordinates are the ascending NaN-free common values, every cell is the one the input stores at the first index holding that coordinate, an empty intersection exits with an error, swapping inputs swaps columns; plus all permutations of 3 dimension entries leave scores unchanged. A shared harness with two inputs storing different threshold columns proves that each reads its own column.",
  note="Trusted: symx models of sort/unique/intersect1d/isin (validated); calendar model for symbolic times. Outside: text-row keyed storage (C09), sizes above the bound.",
  ref="3 C02"),
 "C03": dict(
  text="Bounded model checking of Data.__init__ subsetting: 2-3 stations with symbolic lat/lon/elev and every subset of {latrange, lonrange, elevrange, -l, -lx} with symbolic values; 3 symbolic init times around a year end with every subset of {-t, -d, -tod}; symbolic lead times with -o; -obsrange with symbolic end points. Oracle = the set-builder expression of the statement (inclusive bounds, -lx last, UTC calendar day, whole hours); empty selection => error exit or only NaN. -obsrange is also decided together with -c/-C (the range applies to the observation, not to its anomaly).",
  note="Trusted: symx models incl. calendar model and the linear-search set shadow. The option->argument wiring of the driver is decided in C13. Outside: more stations/times than the bound; coordinates outside [-90,90]x[-180,180].",
  ref="3 C03"),
 "C04": dict(
  text="Bounded model checking: Text._clean on a symbolic token (value, NaN, not-a-number flag); util.clean on a symbolic masked NetCDF variable (mask, NaN, -999, >1e30, +-inf per cell); and, through Data + Metric.compute for 9 metrics x 3-4 axes on 2 inputs with real/NaN/+inf cells, score == score of the same data with the missing cases deleted, all-missing slice => NaN, never an exception. An ensemble-derived probability with every member missing is missing (shared harness).",
  note="Trusted: symx models; the netCDF4 variable is a stub (values + mask). Probabilistic fields with missing values are decided in C08. Outside: on-disk fill values, sizes above the bound.",
  ref="3 C04"),
 "C11": dict(
  text="Bounded model checking of every compute_from_times/compute_from_leadtimes in verif/axis.py on one symbolic instant (any second) inside day windows around year ends and leap days (thorough: every day 1970-2100, the day number concretised by solver-driven forking, the second of day symbolic), of the partition of valid cases by every axis through Data on symbolic init times around 2023-12-31, and of the date/unixtime/datenum round trips for symbolic dates. Cyclic axes are also partitioned with three init times (non-contiguous buckets); -x lat/lon/elev also with two stations sharing the coordinate.",
  note="Trusted: the calendar model (86400 s days; civil fields of a concrete day from the real datetime; date2num = days since 1970-01-01). Outside: leap seconds, times before 1970 for unixtime routes, strftime labels.",
  ref="3 C11"),
 "C14": dict(
  text="Bounded model checking of the climatology branch of Data.get_scores: 1-2 inputs + climatology (also with reordered/extra coverage), subtract and divide; per cell z3 proves obs/fcst anomalies use the climatology forecast at the same coordinates, other fields are untouched, a case is present only if defined and never a non-finite number, identical cases for all inputs, the climatology is not a scored input/legend entry; and mae/rmse/bias/stderror under -c equal those with the climatology as an extra input. -c/-C together with -fcst FIELD / -obs FIELD removes the climatology from the designated fields. Also decided: -c/-C together with -obsrange (the range applies to the measured observation), and together with a -tod / -d selection when the climatology stores its times in another order.",
  note="Trusted: symx models. Outside: sizes above the bound; -c/-C parsing (C13).",
  ref="3 C14"),
 "C15": dict(
  text="Bounded model checking of all 14 aggregator classes + quantile levels along every axis of vectors (1..3/4) and 2x2(x2) arrays against textbook statistics; preaggregate_leadtime/_time on 3-4 grid points with symbolic spacing and symbolic window against the trailing-window definition (l-h, l]; and -T through Data for obs, fcst, ensemble members and ensemble-derived threshold/quantile fields. With two inputs on different grids both forecasts and observations are windowed on the grid of the input they are read from. The quick tier includes a 1x2x2 array along every axis (verif's arrays are 3-D).",
  note="Trusted: symx NumPy models (mean/median/percentile/std/sort), validated against NumPy. Outside: float32 rounding of the window array, unsorted grids, arrays above the bound.",
  ref="3 C15"),
 "C18": dict(
  text="Bounded model checking over request histories: every sequence of 2 (thorough: 2 on a 10-request menu and 3 on one location) get_scores requests mixing single/multiple fields, axes All/No/Time/Location/Leadtime and both inputs, with and without -obsrange, on 2 inputs with symbolic real-or-NaN cells; z3 proves on every path that the last result equals a freshly built dataset's, earlier returned arrays are unaltered (real NumPy aliasing is executed, not modelled), inputs are unmodified and a repeated request repeats its answer. A further menu mixes fields of different kinds with equal parameters (p0.5 and q0.5).",
  note="Trusted: symx array model (views/aliasing are NumPy's own). Outside: longer histories, more cells.",
  ref="3 C18"),
 "C08": dict(
  text="Bounded model checking: metric.get_p through Data (event probability = P(upper)-P(lower) from the stored CDF, or the fraction of present ensemble members when the threshold is not stored) for 8 bin types; the 7 Brier classes on 2-3 (probability, outcome) pairs with probabilities anywhere in [0,1] incl. bin edges (definitions, BS = REL-RES+UNC when one value per bin, BS(event) = BS(complement)); stored vs ensemble quantiles, pinball loss, coverage, spread, spread-skill ratio; bs/ign0/spherical/marginal ratio/threshold mean through Data; PIT mean, deviation, slope, shape. Shared harnesses: inputs storing different threshold columns, and probabilities derived from the valid ensemble members only.",
  note="Trusted: symx models (quantile normal_unbiased, fork-based histogram), log2 uninterpreted, norm.ppf evaluated by SciPy on concrete levels; the 10 bin edges are the doubles np.linspace produces. Outside: PIT randomisation (np.random), more cases than the bound.",
  ref="3 C08"),
 "C09": dict(
  text="Bounded model checking of verif.input.Text.__init__ on files of 2 (thorough 3) data rows x 7 header layouts (any column order, date+hour / unixtime, leadtime/offset, location/id, altitude/elev, p/q/e/pit/other columns, comment and metadata lines) whose every numeric cell is a symbolic token (obs cells also non-numeric / NaN / -999): z3 proves times/leadtimes = sorted distinct coordinates, one location per id with the first row's metadata, every field cell = the last row with those coordinates else missing, thresholds/quantiles/members from the headers, variable metadata.",
  note="Trusted: builtin open() shadowed by an in-memory token file (the replay writes a real file and runs the real reader); calendar model for date columns. Outside: separators other than blanks, more rows than the bound.",
  ref="3 C09"),
 "C10": dict(
  text="Partial. Bounded model checking of verif.input.Netcdf (every property getter, locations, variable metadata) over every subset of the 8 optional variable groups of a *stub* dataset with symbolic masked content: each attribute == clean(documented variable); get_input dispatch over all validity combinations; scripts/text2nc.main writes every array of the text input (symbolic) to the stub. With C09 this pins both readers to the same numbers. Variable metadata (name, units, x0, x1) for five combinations of the global attributes. text2nc is run on an input that lists its thresholds and quantile levels in non-ascending order (column labels stay with their columns).",
  note="NOT decided: anything the NetCDF/HDF5 C library does (fill values on disk, float32 storage: 'exactly for float32-representable data'), 'detected from content' (is_valid_nc only tries to open the file), Comps files. netCDF4.Dataset is an in-memory stub in both the symbolic run and the replay.",
  ref="3 C10"),
 "C12": dict(
  text="Partial. Bounded model checking of Standard._get_x_y, Output.text/csv and get_axis_descriptions on a real Data object with symbolic cells: placement (score of input f on slice i lands in row i, column f; threshold rows in the given order; mean over thresholds otherwise; -acc running sums; -leg labels; -f file instead of screen) is proven for every path; the printed characters are checked on one solver-chosen representative per path (the %g conversion needs a concrete number) to 6 / 4 significant digits, with the row descriptors. -x obs / -x fcst (one row per interval) and -x month/week/year with several init times in a period are included.",
  note="Trusted: symx models; print/open recorders. Formatting is decided for one representative model per path (realisation), said so in the evidence. Outside: terminal width, strftime of time labels beyond the real matplotlib on concrete times.",
  ref="3 C12"),
 "C13": dict(
  text="Partial. Bounded model checking of the verif.driver.run argument loop with recorders at its boundary: 31 options x 3 positions each change exactly their documented slot (Data keyword / output attribute) with symbolic numeric values flowing through util.parse_numbers; --config == inline; util.parse_numbers/parse_dates on 6 vector shapes of symbolic decimal tokens against the comma/colon semantics (end point included, calendar-day stepping across month/year/leap boundaries); 21 malformed or out-of-range command lines are rejected with non-zero status. Whole arguments as character-class vectors (<= 4 / 5 characters) are decided against the documented grammar, and the --list-* options against what is common to two overlapping inputs. Two options that write the same setting (-c / -C, an option given twice, the later one also from --config): the later one takes effect completely.",
  note="Trusted: get_input/Data/output actions are recording stubs here (their behaviour: C01-C12); arange/round models (validated). Outside: IEEE rounding of decimal grids, arbitrary-character argument strings (malformed syntax is decided on a fixed list of shapes), the effect of options on rendered plots (C17).",
  ref="3 C13"),
 "C16": dict(
  text="Partial. Bounded model checking of Output.plot/_plot_core for the standard line plot (location/time/no), obsfcst (with and without quantile lines), qq (plain and with -x/-q), sort, hist, freq, scatter, error, change, cond, marginal, reliability, discrimination, roc, droc0, pithist, timeseries, invreliability, spreadskill, against, bsdecomp, igncontrib, economicvalue, murphy, droc, meteo and autocov/autocorr (-simple), and of the binning helper util.bin, on a real Data object with symbolic cells, observed at the matplotlib.pyplot boundary: one series per input in command-line order, each point = the defining statistic of its slice over the common valid cases, sorted values / percentiles, bin heights, every value in exactly one bin.",
  note="NOT decided: performance, taylor, fss, the smoothing lines of autocorr/autocov, maps, rank and impact views, and whether matplotlib draws what it is given. pyplot is a recording stub in both the symbolic run and the replay.",
  ref="3 C16"),
 "C17": dict(
  text="Partial. Bounded model checking of the dataflow of 45 appearance options from argv through verif.driver.run, the output object's attributes and Output.plot/_adjust_axis/_legend/_save_plot/_get_plot_options/_add_annotation to the documented matplotlib call: the option's symbolic value arrives as the documented argument (set_rotation, grid(lw=), set_title(fontsize=), savefig(dpi=), set_size_inches, subplots_adjust, plot(color/ls/lw/marker/ms), legend(loc/prop), text(fontsize) ...); limits combined with ticks are applied in the order that keeps the limits; thorough: all ordered pairs of 9 options keep both effects. The margin options are followed to the savefig call (no bbox_inches='tight' when a margin is given).",
  note="NOT decided: what matplotlib does with the call, the image format and pixel size. pyplot/Axes/Figure are recording stubs in both the symbolic run and the replay.",
  ref="3 C17"),
 "C19": dict(
  text="Partial. Exploration through the engine of verif.driver.run -> real Data -> real metric -> Standard._get_x_y -> csv for every valid metric class (70) + 6 diagrams x 4 (thorough: all 19) -x dimensions x 3-6 bin-type/aggregator variants x dataset classes chosen by symbolic flags (a location and/or a time entirely missing, constant forecasts, zero observations, perfect forecast), of the text and csv writers x obs/fcst/threshold/leadtime axes x bin types x -r, of every diagram / output type up to a pyplot recording stub, of all 28 diagrams x 8 bin types x 1/2/4 thresholds and of all 28 diagrams x 19 -x dimensions x (default, -q, -agg median, -simple) on the ordinary dataset: every run returns or exits through verif.util.error with non-zero status; any other exception is replayed on the unmodified code and reported. Further: every metric/diagram x 4 dataset kinds (deterministic as text or NetCDF presents it, probabilistic, ensemble only) x 1 or 2 inputs x plot/rank/csv x (default, -q, -r); map types x 5 longitude conventions; field metrics with non-mean aggregators on -x obs/fcst.",
  note="This is the weakest claim: after the flags are decided the cells are concrete, so the solver only enumerates the feasible flag/option combinations (bounded configuration exploration, not value-level reasoning). NOT decided: output types that render (plot, map, rank, maprank, impact, mapimpact) and the diagrams' drawing code.",
  ref="3 C19"),
 "C20": dict(
  text="Partial. Bounded model checking of scripts/accumulate.py (trailing sums for windows none/1..4 along lead time or time, incomplete windows missing, -i), scripts/ens2prob.py (cdf in [0,1] and non-decreasing in the threshold, quantiles non-decreasing in the level and within the ensemble range, PIT = fraction of members below the obs, missing where the obs is missing) and scripts/expandverif.py (each observation placed exactly where the valid time matches, symbolic init and lead times) run with the real argparse; times, lead times, location metadata and untouched fields are written unchanged. ens2prob is run with the thresholds in increasing and in another order. The windowed sum must ask scipy.signal.convolve for the direct method (the automatic choice switches to the FFT on larger files, where one missing value spoils other windows): the method argument is recorded in both modes.",
  note="Trusted: get_input -> in-memory input, netCDF4 -> write recorder; scipy.signal.convolve(ones,'valid') and interp1d(kind='zero') are models under the engine (the replay uses SciPy). NOT decided: scripts/window.py, on-disk encoding.",
  ref="3 C20"),
}

PENDING = {}

def main():
    ids = ["C%02d" % i for i in range(1, 21)]
    checks = []
    for pid in ids:
        if pid in CLAIMED:
            c = CLAIMED[pid]
            checks.append({
                "property_id": pid,
                "quick_cmd": "./check %s quick" % pid,
                "thorough_cmd": "./check %s thorough" % pid,
                "evidence_file": "evidence/%s.json" % pid,
                "replay_cmd_template": "./check --replay {path}",
                "engine": "symx",
                "level_claimed": {"category": "model_checking", "text": c["text"], "design_ref": "DESIGN.md section " + c["ref"]},
                "level_note": c["note"],
                "technique": TECH,
            })
    na = []
    for pid in ids:
        if pid not in CLAIMED:
            na.append({"property_id": pid, "reason": PENDING.get(pid, "solver-based harness not built yet in this round (design in DESIGN.md section 3); no claim is made")})
    m = {
        "version": 1,
        "setup_cmd": "./check --setup",
        "hooks": {"guard": "WFRT_VERIF_VERIF", "enable": "none needed: the engine rebinds module globals of the loaded verif modules at run time; no source hook exists in /repo",
                  "baseline_off_cmd": "cd /repo && /venv/bin/python -m pytest -ra -q -p no:cacheprovider --timeout=900 --continue-on-collection-errors",
                  "source_commits": [], "add_only": True},
        "engines": [{"name": "symx", "path": "symx/", "serves_properties": sorted(CLAIMED),
                     "kind_free_text": "concolic / bounded symbolic execution of the real verif Python code over z3 (path exploration by re-execution, 16 worker processes), with witness replay of every path on the unmodified code"}],
        "checks": checks,
        "not_applicable": na,
        "notes": "Exit codes: 0 held (KNOWN-FINDING lines allowed), 1 VIOLATION, 2 harness error (never with a VIOLATION line). known_findings.json is read-only at run time.",
    }
    with open(os.path.join(HERE, "MANIFEST.json"), "w") as f:
        json.dump(m, f, indent=1)
        f.write("\n")

if __name__ == "__main__":
    main()
