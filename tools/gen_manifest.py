#!/usr/bin/env python3
"""Regenerates MANIFEST.json from the table below (development helper)."""
import json, os
HERE = os.path.dirname(os.path.dirname(os.path.abspath(__file__)))

TECH = "bounded symbolic execution of the real Python (own concolic engine symx over real NumPy object arrays) + z3 validity query per path; counterexamples replayed on the unmodified code"

CLAIMED = {
 "C07": dict(
  text="Bounded model checking of the real code: Interval.within (scalar and array), util.apply_threshold, apply_threshold_prob and get_intervals are executed on symbolic values/thresholds (finite, NaN, +-inf) for all 8 bin types; on every feasible path z3 proves membership == documented inequality, NaN in no event, mutual agreement, the within= partition and above = not below=. All values within the bound (arrays <= 2/3, <= 2/3 thresholds) are covered by the solver, not sampled.",
  note="Trusted: symx value model (extended reals, no rounding), NumPy shape/indexing executed natively, the validated library models listed in the evidence. Outside: Hist/Freq counting loops behind pyplot, arrays above the bound.",
  ref="3 C07"),
 "C06": dict(
  text="Bounded model checking of the real code: all 25 Contingency.compute_from_abcd on symbolic integer tables (a,b,c,d in [0,6] quick / [0,40] thorough) against textbook formulas with undefined -> NaN, never +-inf; _compute_abcd/compute_from_obs_fcst on 2-3 symbolic (obs,fcst) pairs with NaN, symbolic thresholds and all 8 bin types against event counts, with the obs<->fcst exchange and event-complement relations. Every feasible path is decided by z3 for all values.",
  note="Trusted: symx value model; log as uninterpreted strictly monotone function (formulas compared modulo the product rule). Outside: tables above the bound, the resampling variant (np.random).",
  ref="3 C06"),
 "C05": dict(
  text="Bounded model checking of the real code: every ObsFcstBased metric (7 with all 18 aggregator choices, 13 without), Within, Conditional, XConditional, Count on 0..2/3 symbolic pairs (finite or NaN); per path z3 proves result == literature definition on the valid pairs, undefined -> non-finite, perfect forecast -> perfect_score, nothing better than perfect_score. rankcorr/kendallcorr: guards and argument flow only (SciPy is a stub).",
  note="Trusted: symx value model and validated NumPy models (mean/std/percentile/sort/corrcoef); exp/log uninterpreted. Non-linear metrics are bounded one pair lower. Outside: IEEE rounding, vectors above the bound, SciPy rank statistics.",
  ref="3 C05"),
 "C01": dict(
  text="Bounded model checking of the real Data.__init__/get_scores/_get_score/_apply_axis: 2 (thorough 3) in-memory inputs (+ variants: an input without observations, a climatology, an input with extra/reordered coverage) whose every obs/fcst/other cell is a symbolic real-or-NaN; for 5 field sets x 9-11 axis slices z3 proves on every feasible path that each input returns exactly the cases where every input has every requested quantity, in storage order with the stored values, that an obs-less input gets the shared obs, and that another input's forecast values never matter.",
  note="Trusted: symx value/array model, validated NumPy models. Inputs are in-memory Input objects (readers: C09/C10). Outside: more inputs/cells than the bound; +-inf literals (C04).",
  ref="3 C01"),
 "C02": dict(
  text="Bounded model checking of Data._get_common_indices and the index selection in _get_score with *symbolic coordinates*: location ids, lead times (incl. NaN) and times of two inputs are arbitrary symbolic values in any order with duplicates (2+2, 2+1; thorough 3+3, 3+2); per path z3 proves the verified coordinates are the ascending NaN-free common values, every cell is the one the input stores at the first index holding that coordinate, an empty intersection exits with an error, swapping inputs swaps columns; plus all permutations of 3 dimension entries leave scores unchanged.",
  note="Trusted: symx models of sort/unique/intersect1d/isin (validated); calendar model for symbolic times. Outside: text-row keyed storage (C09), sizes above the bound.",
  ref="3 C02"),
 "C03": dict(
  text="Bounded model checking of Data.__init__ subsetting: 2-3 stations with symbolic lat/lon/elev and every subset of {latrange, lonrange, elevrange, -l, -lx} with symbolic values; 3 symbolic init times around a year end with every subset of {-t, -d, -tod}; symbolic lead times with -o; -obsrange with symbolic end points. Oracle = the set-builder expression of the statement (inclusive bounds, -lx last, UTC calendar day, whole hours); empty selection => error exit or only NaN.",
  note="Trusted: symx models incl. calendar model and the linear-search set shadow. The option->argument wiring of the driver is decided in C13. Outside: more stations/times than the bound; coordinates outside [-90,90]x[-180,180].",
  ref="3 C03"),
 "C04": dict(
  text="Bounded model checking: Text._clean on a symbolic token (value, NaN, not-a-number flag); util.clean on a symbolic masked NetCDF variable (mask, NaN, -999, >1e30, +-inf per cell); and, through Data + Metric.compute for 9 metrics x 3-4 axes on 2 inputs with real/NaN/+inf cells, score == score of the same data with the missing cases deleted, all-missing slice => NaN, never an exception.",
  note="Trusted: symx models; the netCDF4 variable is a stub (values + mask). Probabilistic fields with missing values are decided in C08. Outside: on-disk fill values, sizes above the bound.",
  ref="3 C04"),
 "C11": dict(
  text="Bounded model checking of every compute_from_times/compute_from_leadtimes in verif/axis.py on one symbolic instant (any second) inside day windows around year ends and leap days (thorough: every day 1970-2100, the day number concretised by solver-driven forking, the second of day symbolic), of the partition of valid cases by every axis through Data on symbolic init times around 2023-12-31, and of the date/unixtime/datenum round trips for symbolic dates.",
  note="Trusted: the calendar model (86400 s days; civil fields of a concrete day from the real datetime; date2num = days since 1970-01-01). Outside: leap seconds, times before 1970 for unixtime routes, strftime labels.",
  ref="3 C11"),
 "C14": dict(
  text="Bounded model checking of the climatology branch of Data.get_scores: 1-2 inputs + climatology (also with reordered/extra coverage), subtract and divide; per cell z3 proves obs/fcst anomalies use the climatology forecast at the same coordinates, other fields are untouched, a case is present only if defined and never a non-finite number, identical cases for all inputs, the climatology is not a scored input/legend entry; and mae/rmse/bias/stderror under -c equal those with the climatology as an extra input.",
  note="Trusted: symx models. Outside: sizes above the bound; -c/-C parsing (C13).",
  ref="3 C14"),
 "C15": dict(
  text="Bounded model checking of all 14 aggregator classes + quantile levels along every axis of vectors (1..3/4) and 2x2(x2) arrays against textbook statistics; preaggregate_leadtime/_time on 3-4 grid points with symbolic spacing and symbolic window against the trailing-window definition (l-h, l]; and -T through Data for obs, fcst, ensemble members and ensemble-derived threshold/quantile fields.",
  note="Trusted: symx NumPy models (mean/median/percentile/std/sort), validated against NumPy. Outside: float32 rounding of the window array, unsorted grids, arrays above the bound.",
  ref="3 C15"),
 "C18": dict(
  text="Bounded model checking over request histories: every sequence of 2 (thorough: 2 on a 10-request menu and 3 on one location) get_scores requests mixing single/multiple fields, axes All/No/Time/Location/Leadtime and both inputs, with and without -obsrange, on 2 inputs with symbolic real-or-NaN cells; z3 proves on every path that the last result equals a freshly built dataset's, earlier returned arrays are unaltered (real NumPy aliasing is executed, not modelled), inputs are unmodified and a repeated request repeats its answer.",
  note="Trusted: symx array model (views/aliasing are NumPy's own). Outside: longer histories, more cells.",
  ref="3 C18"),
}

PENDING = {}

def main():
    ids = ["C%02d" % i for i in range(1, 21)]
    checks = []
    for pid in ids:
        if pid in CLAIMED:
            c = CLAIMED[pid]
            checks.append({
                "property_id": pid,
                "quick_cmd": "./check %s quick" % pid,
                "thorough_cmd": "./check %s thorough" % pid,
                "evidence_file": "evidence/%s.json" % pid,
                "replay_cmd_template": "./check --replay {path}",
                "engine": "symx",
                "level_claimed": {"category": "model_checking", "text": c["text"], "design_ref": "DESIGN.md section " + c["ref"]},
                "level_note": c["note"],
                "technique": TECH,
            })
    na = []
    for pid in ids:
        if pid not in CLAIMED:
            na.append({"property_id": pid, "reason": PENDING.get(pid, "solver-based harness not built yet in this round (design in DESIGN.md section 3); no claim is made")})
    m = {
        "version": 1,
        "setup_cmd": "./check --setup",
        "hooks": {"guard": "WFRT_VERIF_VERIF", "enable": "none needed: the engine rebinds module globals of the loaded verif modules at run time; no source hook exists in /repo",
                  "baseline_off_cmd": "cd /repo && /venv/bin/python -m pytest -ra -q -p no:cacheprovider --timeout=900 --continue-on-collection-errors",
                  "source_commits": [], "add_only": True},
        "engines": [{"name": "symx", "path": "symx/", "serves_properties": sorted(CLAIMED),
                     "kind_free_text": "concolic / bounded symbolic execution of the real verif Python code over z3 (path exploration by re-execution, 16 worker processes), with witness replay of every path on the unmodified code"}],
        "checks": checks,
        "not_applicable": na,
        "notes": "Exit codes: 0 held (KNOWN-FINDING lines allowed), 1 VIOLATION, 2 harness error (never with a VIOLATION line). known_findings.json is read-only at run time.",
    }
    with open(os.path.join(HERE, "MANIFEST.json"), "w") as f:
        json.dump(m, f, indent=1)
        f.write("\n")

if __name__ == "__main__":
    main()
