#!/bin/bash
# dev helper: re-confirm every seeded change against /repo itself:
#   git -C /repo apply <patch>; ./check <property> quick (must exit 1 with a VIOLATION line); git -C /repo checkout -- .
# /repo must be clean before and is clean afterwards.  Evidence files are rewritten by these runs:
# run tools/runall.sh quick afterwards.
cd "$(dirname "$0")/.."
if [ -n "$(git -C /repo status --porcelain)" ]; then echo "/repo is not clean"; exit 9; fi
bad=0
for d in seeded/*/; do
  id=$(basename $d)
  prop=$(python3 -c "import json,sys; print(json.load(open('$d/meta.json'))['property'])")
  git -C /repo apply "$PWD/$d/patch.diff" || { echo "$id: patch does not apply"; bad=1; continue; }
  out=$(./check $prop quick 2>&1); rc=$?
  git -C /repo checkout -- .
  n=$(echo "$out" | grep -c '^VIOLATION')
  echo "$id property=$prop rc=$rc violations=$n $(echo "$out" | grep -m1 'signature' | cut -c1-160)"
  expect=$(python3 -c "import json; print(json.load(open('$d/meta.json')).get('check_result', {}).get('exit', 1))")
  if [ "$expect" = "0" ]; then echo "   (recorded miss: $id is expected not to be reported)"; continue; fi
  if [ $rc -ne 1 ] || [ $n -eq 0 ]; then bad=1; echo "   NOT REPORTED: $id"; fi
done
exit $bad
