#!/bin/bash
# dev helper: tools/seedconfirm.sh <outdir> <tag>  -- step 1 of confirming a seeded change, without running a check:
#   demo on a clean scratch worktree (exit 0), demo with the patch (exit != 0), test suite with the patch (182 passed)
out=$1; tag=$2
scratch=/tmp/wt/verify_$tag
rm -rf $scratch; git -C /repo worktree prune
git -C /repo worktree add -q --detach $scratch HEAD || exit 9
cd $scratch
PYTHONPATH=$scratch timeout 900 /venv/bin/python -W ignore $out/demo.py >/tmp/wt/demo_clean_$tag.log 2>&1; c=$?
git apply $out/patch.diff || { echo "$tag: patch does not apply"; git -C /repo worktree remove --force $scratch; exit 8; }
PYTHONPATH=$scratch timeout 900 /venv/bin/python -W ignore $out/demo.py >/tmp/wt/demo_patched_$tag.log 2>&1; p=$?
t=$(PYTHONPATH=$scratch /venv/bin/python -m pytest -q -p no:cacheprovider --timeout=900 -W ignore verif/tests 2>&1 | grep -E "passed|failed" | tail -1)
cd /
git -C /repo worktree remove --force $scratch
echo "$tag demo_clean=$c demo_patched=$p tests: $t | $(git -C /repo apply --stat $out/patch.diff 2>/dev/null | head -1)"
